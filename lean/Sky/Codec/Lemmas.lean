/-
  Sky.Codec.Lemmas — generic theorems about the reference codec, proved once by induction on the
  schema (core Lean only).  The property-level statements are collected in `Sky/Props/C21.lean`.
-/
import Sky.Codec.Basic
namespace Sky.Codec

/-- every element is a byte -/
def BytesOK (bs : Bytes) : Prop := ∀ x ∈ bs, x < 256

theorem BytesOK.nil : BytesOK [] := by intro x h; cases h
theorem BytesOK.append {a b : Bytes} (ha : BytesOK a) (hb : BytesOK b) : BytesOK (a ++ b) := by
  intro x h; rcases List.mem_append.1 h with h | h
  · exact ha x h
  · exact hb x h
theorem BytesOK.left {a b : Bytes} (h : BytesOK (a ++ b)) : BytesOK a :=
  fun x hx => h x (List.mem_append_left _ hx)
theorem BytesOK.right {a b : Bytes} (h : BytesOK (a ++ b)) : BytesOK b :=
  fun x hx => h x (List.mem_append_right _ hx)
theorem BytesOK.take {a : Bytes} (h : BytesOK a) (n : Nat) : BytesOK (a.take n) :=
  fun x hx => h x (List.mem_of_mem_take hx)
theorem BytesOK.drop {a : Bytes} (h : BytesOK a) (n : Nat) : BytesOK (a.drop n) :=
  fun x hx => h x (List.mem_of_mem_drop hx)
theorem BytesOK.tail {b : Nat} {a : Bytes} (h : BytesOK (b :: a)) : BytesOK a :=
  fun x hx => h x (List.mem_cons_of_mem _ hx)

/-! ### little endian -/

@[simp] theorem leBytes_length (k x : Nat) : (leBytes k x).length = k := by
  induction k generalizing x with
  | zero => rfl
  | succ k ih => simp [leBytes, ih]

theorem leBytes_bytesOK (k x : Nat) : BytesOK (leBytes k x) := by
  induction k generalizing x with
  | zero => exact BytesOK.nil
  | succ k ih =>
    intro y hy
    simp only [leBytes, List.mem_cons] at hy
    rcases hy with h | h
    · omega
    · exact ih _ y h

theorem leVal_leBytes (k x : Nat) (h : x < 256 ^ k) : leVal (leBytes k x) = x := by
  induction k generalizing x with
  | zero => simp [leBytes, leVal]; omega
  | succ k ih =>
    simp only [leBytes, leVal]
    have h2 : x / 256 < 256 ^ k := by
      rw [Nat.pow_succ] at h
      exact Nat.div_lt_of_lt_mul (by rw [Nat.mul_comm]; exact h)
    rw [ih _ h2]; omega

theorem leVal_lt (bs : Bytes) (h : BytesOK bs) : leVal bs < 256 ^ bs.length := by
  induction bs with
  | nil => simp [leVal]
  | cons b bs ih =>
    simp only [leVal, List.length_cons, Nat.pow_succ]
    have := h b (by simp)
    have := ih h.tail
    omega

theorem leBytes_leVal (bs : Bytes) (h : BytesOK bs) : leBytes bs.length (leVal bs) = bs := by
  induction bs with
  | nil => simp [leBytes]
  | cons b bs ih =>
    simp only [List.length_cons, leBytes, leVal]
    have hb := h b (by simp)
    have h1 : (b + 256 * leVal bs) % 256 = b := by omega
    have h2 : (b + 256 * leVal bs) / 256 = leVal bs := by omega
    rw [h1, h2, ih h.tail]

/-- the low `k` bytes only depend on `x mod 256^k` (Go's `uint32(len(x))` truncation) -/
theorem leBytes_mod (k x : Nat) : leBytes k (x % 256 ^ k) = leBytes k x := by
  induction k generalizing x with
  | zero => rfl
  | succ k ih =>
    simp only [leBytes]
    have h1 : x % 256 ^ (k + 1) % 256 = x % 256 := by
      rw [Nat.pow_succ, Nat.mul_comm]; exact Nat.mod_mul_right_mod x 256 (256 ^ k)
    have h2 : x % 256 ^ (k + 1) / 256 = (x / 256) % 256 ^ k := by
      rw [Nat.pow_succ, Nat.mul_comm]; exact Nat.mod_mul_right_div_self x 256 (256 ^ k)
    rw [h1, h2, ih]

theorem lenGe_iff (bs : Bytes) (n : Nat) : lenGe bs n = true ↔ n ≤ bs.length := by
  induction bs generalizing n with
  | nil => cases n <;> simp [lenGe]
  | cons b bs ih => cases n with
    | zero => simp [lenGe]
    | succ n => simp [lenGe, ih]

theorem lenGe_eq (bs : Bytes) (n : Nat) : lenGe bs n = decide (n ≤ bs.length) := by
  by_cases h : n ≤ bs.length
  · simp [h, (lenGe_iff bs n).2 h]
  · have : lenGe bs n ≠ true := fun hh => h ((lenGe_iff bs n).1 hh)
    simp [h, this]

/-! ### two's complement -/

theorem ofSigned_lt (bits : Nat) (v : Int) : ofSigned bits v < 2 ^ bits := by
  unfold ofSigned
  have hp : (0 : Int) < ((2 ^ bits : Nat) : Int) := by
    have : 0 < 2 ^ bits := Nat.pow_pos (by omega)
    omega
  have h1 := Int.emod_lt_of_pos v hp
  have h2 := Int.emod_nonneg v (Int.ne_of_gt hp)
  omega

theorem toSigned_ofSigned (bits : Nat) (hb : 0 < bits) (v : Int)
    (hlo : -((2 ^ (bits - 1) : Nat) : Int) ≤ v) (hhi : v < ((2 ^ (bits - 1) : Nat) : Int)) :
    toSigned bits (ofSigned bits v) = v := by
  have hpow : 2 ^ bits = 2 * 2 ^ (bits - 1) := by
    cases bits with
    | zero => omega
    | succ k => simp [Nat.pow_succ, Nat.mul_comm]
  unfold toSigned ofSigned
  generalize hP : 2 ^ (bits - 1) = P at *
  rw [hpow]
  by_cases hv : 0 ≤ v
  · have : v % ((2 * P : Nat) : Int) = v := Int.emod_eq_of_lt hv (by omega)
    rw [this]
    have : v.toNat < P := by omega
    simp only [this, if_true]
    omega
  · have : v % ((2 * P : Nat) : Int) = v + ((2 * P : Nat) : Int) := by
      rw [← Int.add_emod_right]; exact Int.emod_eq_of_lt (by omega) (by omega)
    rw [this]
    have : ¬ ((v + ((2 * P : Nat) : Int)).toNat < P) := by omega
    simp only [this, if_false]
    omega

theorem ofSigned_toSigned (bits : Nat) (hb : 0 < bits) (n : Nat) (hn : n < 2 ^ bits) :
    ofSigned bits (toSigned bits n) = n := by
  have hpow : 2 ^ bits = 2 * 2 ^ (bits - 1) := by
    cases bits with
    | zero => omega
    | succ k => simp [Nat.pow_succ, Nat.mul_comm]
  unfold toSigned ofSigned
  generalize hP : 2 ^ (bits - 1) = P at *
  rw [hpow] at hn ⊢
  by_cases h : n < P
  · simp only [h, if_true]
    have : (n : Int) % ((2 * P : Nat) : Int) = n := Int.emod_eq_of_lt (by omega) (by omega)
    rw [this]; omega
  · simp only [h, if_false]
    have : ((n : Int) - ((2 * P : Nat) : Int)) % ((2 * P : Nat) : Int) = n := by
      rw [← Int.add_emod_right, Int.sub_add_cancel]; exact Int.emod_eq_of_lt (by omega) (by omega)
    rw [this]; omega

/-! ### schema side conditions and well-formed values -/

/-- no `omitempty` field anywhere -/
def NoOmit : Ty → Bool
  | .array _ t => NoOmit t
  | .slice _ t => NoOmit t
  | .pair a b => NoOmit a && NoOmit b
  | .omitempty _ => false
  | _ => true

/-- every well-formed value encodes to at least one byte (needed for the `length > len(d.Buffer)`
guard of slices: Go rejects its own encoding of `[]struct{}{ {}, {} }`). -/
def MinOne : Ty → Bool
  | .bytesN n => decide (0 < n)
  | .array n t => decide (0 < n) && MinOne t
  | .unit => false
  | .pair a b => MinOne a || MinOne b
  | .omitempty _ => false
  | _ => true

/-- kinds for which `omitempty` means something (`encoder.isEmpty`) -/
def sliceLike : Ty → Bool
  | .bytes _ | .str _ | .slice _ _ => true
  | _ => false

/-- schemas the theorems are about: `omit` only as the last field of the outermost struct and only on a
slice / string; slice elements are at least one byte. All skycoin schemas satisfy it (by `decide`). -/
def TyOK : Ty → Bool
  | .array _ t => NoOmit t && TyOK t
  | .slice _ t => NoOmit t && MinOne t && TyOK t
  | .pair a b => NoOmit a && TyOK a && TyOK b
  | .omitempty t => sliceLike t && NoOmit t && TyOK t
  | _ => true

/-- `v` fits a signed `bits`-bit integer: `-2^(bits-1) ≤ v < 2^(bits-1)` -/
def InI (bits : Nat) (v : Int) : Prop :=
  -((2 ^ (bits - 1) : Nat) : Int) ≤ v ∧ v < ((2 ^ (bits - 1) : Nat) : Int)

theorem toSigned_inI (bits : Nat) (hb : 0 < bits) (n : Nat) (hn : n < 2 ^ bits) : InI bits (toSigned bits n) := by
  have hpow : 2 ^ bits = 2 * 2 ^ (bits - 1) := by
    cases bits with
    | zero => omega
    | succ k => simp [Nat.pow_succ, Nat.mul_comm]
  unfold InI toSigned
  generalize hP : 2 ^ (bits - 1) = P at *
  rw [hpow] at hn ⊢
  split <;> constructor <;> omega

/-- values that Go can hold: integers in range, fixed arrays of the right length, lengths below 2^32 and
within `maxlen`. -/
def WF : (t : Ty) → Val t → Prop
  | .u8, v => v < 2 ^ 8
  | .u16, v => v < 2 ^ 16
  | .u32, v => v < 2 ^ 32
  | .u64, v => v < 2 ^ 64
  | .i8, v => InI 8 v
  | .i16, v => InI 16 v
  | .i32, v => InI 32 v
  | .i64, v => InI 64 v
  | .bool, _ => True
  | .bytesN n, v => v.length = n
  | .array n t, v => v.length = n ∧ ∀ x ∈ v, WF t x
  | .bytes m, v => v.length < 2 ^ 32 ∧ (m = 0 ∨ v.length ≤ m)
  | .str m, v => v.length < 2 ^ 32 ∧ (m = 0 ∨ v.length ≤ m)
  | .slice m t, v => v.length < 2 ^ 32 ∧ (m = 0 ∨ v.length ≤ m) ∧ ∀ x ∈ v, WF t x
  | .unit, _ => True
  | .pair a b, (x, y) => WF a x ∧ WF b y
  | .omitempty t, v => WF t v

/-! ### primitive reads -/

theorem readN_append (k : Nat) (a r : Bytes) (h : a.length = k) : readN k (a ++ r) = .ok a r := by
  subst h
  have : lenGe (a ++ r) a.length = true := (lenGe_iff _ _).2 (by simp)
  simp [readN, this]

theorem readN_ok {k : Nat} {bs a r : Bytes} (h : readN k bs = .ok a r) : a ++ r = bs ∧ a.length = k := by
  unfold readN at h
  split at h
  · rename_i hl
    have hl := (lenGe_iff _ _).1 hl
    injection h with h1 h2
    subst h1 h2
    exact ⟨List.take_append_drop _ _, by simp [List.length_take]; omega⟩
  · cases h

theorem readN_err {k : Nat} {bs : Bytes} {e : DecErr} {n : Nat} (h : readN k bs = .err e n) :
    e = .underflow ∧ n = bs.length ∧ bs.length < k := by
  unfold readN at h
  split at h
  · cases h
  · rename_i hl
    have : ¬ k ≤ bs.length := fun hh => hl ((lenGe_iff _ _).2 hh)
    injection h with h1 h2
    exact ⟨h1.symm, h2.symm, by omega⟩

theorem readLE_append (k x : Nat) (r : Bytes) (h : x < 256 ^ k) : readLE k (leBytes k x ++ r) = .ok x r := by
  simp [readLE, readN_append k _ r (leBytes_length k x), DRes.map, leVal_leBytes k x h]

theorem readLE_ok {k : Nat} {bs r : Bytes} {x : Nat} (hb : BytesOK bs) (h : readLE k bs = .ok x r) :
    leBytes k x ++ r = bs ∧ x < 256 ^ k := by
  unfold readLE at h
  cases h' : readN k bs with
  | err e n => rw [h'] at h; cases h
  | ok a r' =>
    rw [h'] at h
    simp only [DRes.map] at h
    injection h with h1 h2
    subst h1 h2
    obtain ⟨e1, e2⟩ := readN_ok h'
    have ha : BytesOK a := by rw [← e1] at hb; exact hb.left
    have := leBytes_leVal a ha
    rw [e2] at this
    have hlt := leVal_lt a ha
    rw [e2] at hlt
    exact ⟨by rw [this, e1], hlt⟩

theorem readLE_err {k : Nat} {bs : Bytes} {e : DecErr} {n : Nat} (h : readLE k bs = .err e n) :
    e = .underflow ∧ n = bs.length ∧ bs.length < k := by
  unfold readLE at h
  cases h' : readN k bs with
  | err e' n' => rw [h'] at h; simp only [DRes.map] at h; injection h with h1 h2; subst h1 h2; exact readN_err h'
  | ok a r' => rw [h'] at h; cases h

theorem readLen_append (len : Nat) (body : Bytes) (h1 : len < 2 ^ 32) (h2 : len ≤ body.length) :
    readLen (leBytes 4 len ++ body) = .ok len body := by
  have : lenGe body len = true := (lenGe_iff _ _).2 h2
  simp [readLen, readLE_append 4 len body (by omega), this]

theorem readLen_ok {bs r : Bytes} {len : Nat} (hb : BytesOK bs) (h : readLen bs = .ok len r) :
    leBytes 4 len ++ r = bs ∧ len ≤ r.length ∧ len < 2 ^ 32 := by
  unfold readLen at h
  cases h' : readLE 4 bs with
  | err e n => rw [h'] at h; cases h
  | ok x r' =>
    rw [h'] at h
    simp only at h
    split at h
    · rename_i hl
      injection h with h1 h2
      subst h1 h2
      obtain ⟨e1, e2⟩ := readLE_ok hb h'
      exact ⟨e1, (lenGe_iff _ _).1 hl, by omega⟩
    · cases h

theorem readBool_ok {bs r : Bytes} {v : Bool} (h : readBool bs = .ok v r) :
    (if v then 1 else 0) :: r = bs := by
  cases bs with
  | nil => cases h
  | cons b bs =>
    simp only [readBool] at h
    split at h
    · rename_i hb; injection h with h1 h2; subst h1 h2 hb; rfl
    · split at h
      · rename_i hb; injection h with h1 h2; subst h1 h2 hb; rfl
      · cases h

/-! ### the element loop -/

theorem decLoop_enc {α} (d : Bytes → DRes α) (e : α → Bytes) (P : α → Prop)
    (ih : ∀ v, P v → ∀ rest, d (e v ++ rest) = .ok v rest)
    (vs : List α) (hw : ∀ x ∈ vs, P x) (rest : Bytes) (acc : List α) :
    decLoop d vs.length ((vs.map e).flatten ++ rest) acc = .ok (acc.reverse ++ vs) rest := by
  induction vs generalizing acc with
  | nil => simp [decLoop]
  | cons v vs ihl =>
    simp only [List.length_cons, List.map_cons, List.flatten_cons, List.append_assoc, decLoop]
    rw [ih v (hw v (by simp))]
    simp only
    rw [ihl (fun x hx => hw x (by simp [hx]))]
    simp

theorem decLoop_ok {α} (d : Bytes → DRes α) (e : α → Bytes)
    (ih : ∀ bs v rest, BytesOK bs → d bs = .ok v rest → e v ++ rest = bs)
    (n : Nat) (bs : Bytes) (hb : BytesOK bs) (acc vs : List α) (rest : Bytes)
    (h : decLoop d n bs acc = .ok vs rest) :
    ∃ ws, vs = acc.reverse ++ ws ∧ ws.length = n ∧ (ws.map e).flatten ++ rest = bs := by
  induction n generalizing bs acc with
  | zero =>
    simp only [decLoop] at h
    injection h with h1 h2
    exact ⟨[], by simp [h1], rfl, by simp [h2]⟩
  | succ n ihn =>
    simp only [decLoop] at h
    cases hd : d bs with
    | err e' k => rw [hd] at h; cases h
    | ok x r =>
      rw [hd] at h
      simp only at h
      have e1 := ih _ _ _ hb hd
      have hr : BytesOK r := by rw [← e1] at hb; exact hb.right
      obtain ⟨ws, hw1, hw2, hw3⟩ := ihn r hr (x :: acc) h
      refine ⟨x :: ws, by simp [hw1], by simp [hw2], ?_⟩
      simp only [List.map_cons, List.flatten_cons, List.append_assoc]
      rw [hw3, e1]

/-- a loop never produces `ErrRemainingBytes`-like new kinds: its error is an element's error -/
theorem decLoop_err {α} (d : Bytes → DRes α) (Q : DecErr → Nat → Prop)
    (ih : ∀ bs e k, d bs = .err e k → Q e k)
    (n : Nat) (bs : Bytes) (acc : List α) (e : DecErr) (k : Nat)
    (h : decLoop d n bs acc = .err e k) : Q e k := by
  induction n generalizing bs acc with
  | zero => simp [decLoop] at h
  | succ n ihn =>
    simp only [decLoop] at h
    cases hd : d bs with
    | err e' k' => rw [hd] at h; simp only at h; injection h with h1 h2; subst h1 h2; exact ih _ _ _ hd
    | ok x r => rw [hd] at h; exact ihn _ _ h

/-! ### round trip -/

theorem flatten_length_ge {α} (e : α → Bytes) (vs : List α) (h : ∀ x ∈ vs, 0 < (e x).length) :
    vs.length ≤ ((vs.map e).flatten).length := by
  induction vs with
  | nil => simp
  | cons v vs ih =>
    simp only [List.length_cons, List.map_cons, List.flatten_cons, List.length_append]
    have := h v (by simp)
    have := ih (fun x hx => h x (by simp [hx]))
    omega

theorem enc_minOne (t : Ty) (h : MinOne t = true) (v : Val t) (hw : WF t v) : 0 < (enc t v).length := by
  induction t with
  | u8 | u16 | u32 | u64 | i8 | i16 | i32 | i64 => simp [enc]
  | bool => simp [enc]
  | bytesN n => simp only [enc, MinOne, WF, decide_eq_true_eq] at *; omega
  | array n t ih =>
    simp only [MinOne, Bool.and_eq_true, decide_eq_true_eq] at h
    obtain ⟨hl, hall⟩ := hw
    have := flatten_length_ge (enc t) v (fun x hx => ih h.2 x (hall x hx))
    simp only [enc]; omega
  | bytes m => simp only [enc, List.length_append, leBytes_length]; omega
  | str m => simp only [enc, List.length_append, leBytes_length]; omega
  | slice m t _ => simp only [enc, List.length_append, leBytes_length]; omega
  | unit => simp [MinOne] at h
  | pair a b iha ihb =>
    obtain ⟨x, y⟩ := v
    obtain ⟨hwa, hwb⟩ := hw
    simp only [enc, List.length_append]
    simp only [MinOne, Bool.or_eq_true] at h
    rcases h with h | h
    · have := iha h x hwa; omega
    · have := ihb h y hwb; omega
  | omitempty t _ => simp [MinOne] at h

/-- **Round trip** (any remainder): for an omitempty-free schema both decoders read back exactly the
value that was encoded and leave exactly the bytes that followed it. -/
theorem dec_enc (t : Ty) (hno : NoOmit t = true) (ht : TyOK t = true) (v : Val t) (hw : WF t v)
    (rest : Bytes) : dec t (enc t v ++ rest) = .ok v rest := by
  induction t generalizing rest with
  | u8 => exact readLE_append 1 v rest hw
  | u16 => exact readLE_append 2 v rest hw
  | u32 => exact readLE_append 4 v rest hw
  | u64 => exact readLE_append 8 v rest hw
  | i8 =>
    simp only [dec, enc]
    rw [readLE_append 1 _ rest (by have := ofSigned_lt 8 v; omega)]
    simp only [DRes.map]; rw [toSigned_ofSigned 8 (by omega) v hw.1 hw.2]
  | i16 =>
    simp only [dec, enc]
    rw [readLE_append 2 _ rest (by have := ofSigned_lt 16 v; omega)]
    simp only [DRes.map]; rw [toSigned_ofSigned 16 (by omega) v hw.1 hw.2]
  | i32 =>
    simp only [dec, enc]
    rw [readLE_append 4 _ rest (by have := ofSigned_lt 32 v; omega)]
    simp only [DRes.map]; rw [toSigned_ofSigned 32 (by omega) v hw.1 hw.2]
  | i64 =>
    simp only [dec, enc]
    rw [readLE_append 8 _ rest (by have := ofSigned_lt 64 v; omega)]
    simp only [DRes.map]; rw [toSigned_ofSigned 64 (by omega) v hw.1 hw.2]
  | bool => cases v <;> simp [dec, enc, readBool]
  | bytesN n => exact readN_append n v rest hw
  | array n t ih =>
    simp only [NoOmit] at hno
    simp only [TyOK, Bool.and_eq_true] at ht
    obtain ⟨hl, hall⟩ := hw
    simp only [dec, enc]
    rw [← hl]
    have := decLoop_enc (dec t) (enc t) (WF t) (fun x hx r => ih hno ht.2 x hx r) v hall rest []
    simpa using this
  | bytes m =>
    obtain ⟨hl, hm⟩ := hw
    simp only [dec, enc, List.append_assoc]
    rw [readLen_append _ _ hl (by simp)]
    simp only
    by_cases h0 : v.length = 0
    · have : v = [] := List.eq_nil_of_length_eq_zero h0
      subst this; simp
    · have h2 : ¬ (m > 0 ∧ v.length > m) := by omega
      simp [h0, h2]
  | str m =>
    obtain ⟨hl, hm⟩ := hw
    simp only [dec, enc, List.append_assoc]
    rw [readLen_append _ _ hl (by simp)]
    have h2 : ¬ (m > 0 ∧ v.length > m) := by omega
    simp [h2]
  | slice m t ih =>
    simp only [NoOmit] at hno
    simp only [TyOK, Bool.and_eq_true] at ht
    obtain ⟨hl, hm, hall⟩ := hw
    have hge := flatten_length_ge (enc t) v (fun x hx => enc_minOne t ht.1.2 x (hall x hx))
    simp only [dec, enc, List.append_assoc]
    rw [readLen_append _ _ hl (by simp only [List.length_append]; omega)]
    simp only
    by_cases h0 : v.length = 0
    · have : v = [] := List.eq_nil_of_length_eq_zero h0
      subst this; simp
    · have h2 : ¬ (m > 0 ∧ v.length > m) := by omega
      simp only [h0, h2, if_false]
      have := decLoop_enc (dec t) (enc t) (WF t) (fun x hx r => ih hno ht.2 x hx r) v hall rest []
      simpa using this
  | unit => simp [dec, enc]
  | pair a b iha ihb =>
    obtain ⟨x, y⟩ := v
    obtain ⟨hwa, hwb⟩ := hw
    simp only [NoOmit, Bool.and_eq_true] at hno
    simp only [TyOK, Bool.and_eq_true] at ht
    simp only [dec, enc, List.append_assoc]
    rw [iha hno.1 ht.1.2 x hwa]
    simp only
    rw [ihb hno.2 ht.2 y hwb]
  | omitempty t _ => simp [NoOmit] at hno

/-! ### canonicity -/

/-- **Canonicity** (with remainder): whatever an omitempty-free schema decodes from a byte string,
re-encoding the value gives back exactly the bytes that were consumed. -/
theorem dec_canonical (t : Ty) (hno : NoOmit t = true) (bs : Bytes) (hb : BytesOK bs)
    (v : Val t) (rest : Bytes) (h : dec t bs = .ok v rest) : enc t v ++ rest = bs := by
  induction t generalizing bs rest with
  | u8 | u16 | u32 | u64 => exact (readLE_ok hb h).1
  | i8 =>
    simp only [dec] at h
    cases h' : readLE 1 bs with
    | err e n => rw [h'] at h; cases h
    | ok x r =>
      rw [h'] at h; simp only [DRes.map] at h; injection h with h1 h2; subst h1 h2
      obtain ⟨e1, e2⟩ := readLE_ok hb h'
      simp only [enc]; rw [ofSigned_toSigned 8 (by omega) x (by omega), e1]
  | i16 =>
    simp only [dec] at h
    cases h' : readLE 2 bs with
    | err e n => rw [h'] at h; cases h
    | ok x r =>
      rw [h'] at h; simp only [DRes.map] at h; injection h with h1 h2; subst h1 h2
      obtain ⟨e1, e2⟩ := readLE_ok hb h'
      simp only [enc]; rw [ofSigned_toSigned 16 (by omega) x (by omega), e1]
  | i32 =>
    simp only [dec] at h
    cases h' : readLE 4 bs with
    | err e n => rw [h'] at h; cases h
    | ok x r =>
      rw [h'] at h; simp only [DRes.map] at h; injection h with h1 h2; subst h1 h2
      obtain ⟨e1, e2⟩ := readLE_ok hb h'
      simp only [enc]; rw [ofSigned_toSigned 32 (by omega) x (by omega), e1]
  | i64 =>
    simp only [dec] at h
    cases h' : readLE 8 bs with
    | err e n => rw [h'] at h; cases h
    | ok x r =>
      rw [h'] at h; simp only [DRes.map] at h; injection h with h1 h2; subst h1 h2
      obtain ⟨e1, e2⟩ := readLE_ok hb h'
      simp only [enc]; rw [ofSigned_toSigned 64 (by omega) x (by omega), e1]
  | bool => simp only [dec] at h; simpa [enc] using readBool_ok h
  | bytesN n => exact (readN_ok h).1
  | array n t ih =>
    simp only [NoOmit] at hno
    simp only [dec] at h
    obtain ⟨ws, hw1, _, hw3⟩ := decLoop_ok (dec t) (enc t) (fun bs v rest hb hh => ih hno bs hb v rest hh) n bs hb [] v rest h
    simp only [List.reverse_nil, List.nil_append] at hw1
    subst hw1
    simpa [enc] using hw3
  | bytes m =>
    simp only [dec] at h
    cases h' : readLen bs with
    | err e n => rw [h'] at h; cases h
    | ok len r =>
      rw [h'] at h
      obtain ⟨e1, e2, _⟩ := readLen_ok hb h'
      simp only at h
      split at h
      · rename_i h0; injection h with h1 h2; subst h1 h2 h0; simpa [enc] using e1
      · split at h
        · cases h
        · injection h with h1 h2; subst h1 h2
          simp only [enc, List.append_assoc, List.take_append_drop]
          rw [List.length_take, Nat.min_eq_left e2, e1]
  | str m =>
    simp only [dec] at h
    cases h' : readLen bs with
    | err e n => rw [h'] at h; cases h
    | ok len r =>
      rw [h'] at h
      obtain ⟨e1, e2, _⟩ := readLen_ok hb h'
      simp only at h
      split at h
      · cases h
      · injection h with h1 h2; subst h1 h2
        simp only [enc, List.append_assoc, List.take_append_drop]
        rw [List.length_take, Nat.min_eq_left e2, e1]
  | slice m t ih =>
    simp only [NoOmit] at hno
    simp only [dec] at h
    cases h' : readLen bs with
    | err e n => rw [h'] at h; cases h
    | ok len r =>
      rw [h'] at h
      obtain ⟨e1, e2, _⟩ := readLen_ok hb h'
      have hr : BytesOK r := by rw [← e1] at hb; exact hb.right
      simp only at h
      split at h
      · rename_i h0; injection h with h1 h2; subst h1 h2 h0; simpa [enc] using e1
      · split at h
        · cases h
        · obtain ⟨ws, hw1, hw2, hw3⟩ := decLoop_ok (dec t) (enc t) (fun bs v rest hb hh => ih hno bs hb v rest hh) len r hr [] v rest h
          simp only [List.reverse_nil, List.nil_append] at hw1
          subst hw1
          simp only [enc, List.append_assoc]
          rw [hw3, hw2, e1]
  | unit => simp only [dec] at h; injection h with h1 h2; subst h2; simp [enc]
  | pair a b iha ihb =>
    simp only [NoOmit, Bool.and_eq_true] at hno
    simp only [dec] at h
    cases ha : dec a bs with
    | err e n => rw [ha] at h; cases h
    | ok x r =>
      rw [ha] at h; simp only at h
      have e1 := iha hno.1 bs hb x r ha
      have hr : BytesOK r := by rw [← e1] at hb; exact hb.right
      cases hb' : dec b r with
      | err e n => rw [hb'] at h; cases h
      | ok y r' =>
        rw [hb'] at h; simp only at h; injection h with h1 h2; subst h1 h2
        have e2 := ihb hno.2 r hr y r' hb'
        simp only [enc, List.append_assoc]; rw [e2, e1]
  | omitempty t _ => simp [NoOmit] at hno

/-! ### size -/

theorem sum_map_length {α} (f : α → Nat) (e : α → Bytes) (vs : List α) (h : ∀ x ∈ vs, f x = (e x).length) :
    (vs.map f).sum = ((vs.map e).flatten).length := by
  induction vs with
  | nil => simp
  | cons v vs ih =>
    simp only [List.map_cons, List.sum_cons, List.flatten_cons, List.length_append]
    rw [h v (by simp), ih (fun x hx => h x (by simp [hx]))]

/-- fixed-size byte arrays have their declared length (all a Go value needs for `size = |enc|`; integer
ranges and maxlen do not matter here) -/
def ShapeOK : (t : Ty) → Val t → Prop
  | .bytesN n, v => v.length = n
  | .array _ t, v => ∀ x ∈ v, ShapeOK t x
  | .slice _ t, v => ∀ x ∈ v, ShapeOK t x
  | .pair a b, (x, y) => ShapeOK a x ∧ ShapeOK b y
  | .omitempty t, v => ShapeOK t v
  | _, _ => True

theorem wf_shapeOK (t : Ty) (v : Val t) (hw : WF t v) : ShapeOK t v := by
  induction t with
  | u8 | u16 | u32 | u64 | i8 | i16 | i32 | i64 | bool | bytes _ | str _ | unit => trivial
  | bytesN n => exact hw
  | array n t ih => exact fun x hx => ih x (hw.2 x hx)
  | slice m t ih => exact fun x hx => ih x (hw.2.2 x hx)
  | pair a b iha ihb => obtain ⟨x, y⟩ := v; exact ⟨iha x hw.1, ihb y hw.2⟩
  | omitempty t ih => exact ih v hw

theorem size_eq_length_of_shape (t : Ty) (v : Val t) (hw : ShapeOK t v) : size t v = (enc t v).length := by
  induction t with
  | u8 | u16 | u32 | u64 | i8 | i16 | i32 | i64 => simp [size, enc]
  | bool => simp [size, enc]
  | bytesN n => simp only [size, enc, ShapeOK] at *; omega
  | array n t ih => simp only [size, enc]; exact sum_map_length _ _ v (fun x hx => ih x (hw x hx))
  | bytes m => simp [size, enc]
  | str m => simp [size, enc]
  | slice m t ih =>
    simp only [size, enc, List.length_append, leBytes_length]
    rw [sum_map_length _ _ v (fun x hx => ih x (hw x hx))]
  | unit => simp [size, enc]
  | pair a b iha ihb =>
    obtain ⟨x, y⟩ := v
    simp only [size, enc, List.length_append]; rw [iha x hw.1, ihb y hw.2]
  | omitempty t ih =>
    simp only [size, enc]
    split
    · rfl
    · exact ih v hw

/-- `encoder.Size` / `encodeSizeX` is exactly the number of bytes `Serialize` writes. -/
theorem size_eq_length (t : Ty) (v : Val t) (hw : WF t v) : size t v = (enc t v).length :=
  size_eq_length_of_shape t v (wf_shapeOK t v hw)

/-! ### decoded values are well formed -/

theorem zero_wf (t : Ty) : WF t (zero t) := by
  induction t with
  | u8 | u16 | u32 | u64 => simp [WF, zero]
  | i8 | i16 | i32 | i64 => simp [WF, zero, InI]
  | bool | unit => trivial
  | bytesN n => simp [WF, zero]
  | array n t ih => exact ⟨by simp [zero], fun x hx => by rw [List.eq_of_mem_replicate hx]; exact ih⟩
  | bytes m => simp [WF, zero]
  | str m => simp [WF, zero]
  | slice m t _ => simp [WF, zero]
  | pair a b iha ihb => exact ⟨iha, ihb⟩
  | omitempty t ih => exact ih

theorem dec_wf (t : Ty) (bs : Bytes) (hb : BytesOK bs) (v : Val t) (rest : Bytes)
    (h : dec t bs = .ok v rest) : WF t v ∧ BytesOK rest := by
  induction t generalizing bs rest with
  | u8 | u16 | u32 | u64 =>
    obtain ⟨e1, e2⟩ := readLE_ok hb h
    exact ⟨by simpa [WF] using e2, by rw [← e1] at hb; exact hb.right⟩
  | i8 =>
    simp only [dec] at h
    cases h' : readLE 1 bs with
    | err e n => rw [h'] at h; cases h
    | ok x r =>
      rw [h'] at h; simp only [DRes.map] at h; injection h with h1 h2; subst h1 h2
      obtain ⟨e1, e2⟩ := readLE_ok hb h'
      exact ⟨toSigned_inI 8 (by omega) x (by omega), by rw [← e1] at hb; exact hb.right⟩
  | i16 =>
    simp only [dec] at h
    cases h' : readLE 2 bs with
    | err e n => rw [h'] at h; cases h
    | ok x r =>
      rw [h'] at h; simp only [DRes.map] at h; injection h with h1 h2; subst h1 h2
      obtain ⟨e1, e2⟩ := readLE_ok hb h'
      exact ⟨toSigned_inI 16 (by omega) x (by omega), by rw [← e1] at hb; exact hb.right⟩
  | i32 =>
    simp only [dec] at h
    cases h' : readLE 4 bs with
    | err e n => rw [h'] at h; cases h
    | ok x r =>
      rw [h'] at h; simp only [DRes.map] at h; injection h with h1 h2; subst h1 h2
      obtain ⟨e1, e2⟩ := readLE_ok hb h'
      exact ⟨toSigned_inI 32 (by omega) x (by omega), by rw [← e1] at hb; exact hb.right⟩
  | i64 =>
    simp only [dec] at h
    cases h' : readLE 8 bs with
    | err e n => rw [h'] at h; cases h
    | ok x r =>
      rw [h'] at h; simp only [DRes.map] at h; injection h with h1 h2; subst h1 h2
      obtain ⟨e1, e2⟩ := readLE_ok hb h'
      exact ⟨toSigned_inI 64 (by omega) x (by omega), by rw [← e1] at hb; exact hb.right⟩
  | bool =>
    simp only [dec] at h
    have := readBool_ok h
    exact ⟨trivial, by rw [← this] at hb; exact hb.tail⟩
  | bytesN n =>
    obtain ⟨e1, e2⟩ := readN_ok h
    exact ⟨e2, by rw [← e1] at hb; exact hb.right⟩
  | array n t ih =>
    simp only [dec] at h
    have key : ∀ (n : Nat) (bs : Bytes), BytesOK bs → ∀ (acc vs : List (Val t)) (rest : Bytes),
        (∀ x ∈ acc, WF t x) → decLoop (dec t) n bs acc = .ok vs rest →
        vs.length = acc.length + n ∧ (∀ x ∈ vs, WF t x) ∧ BytesOK rest := by
      intro n
      induction n with
      | zero =>
        intro bs hb acc vs rest hacc h
        simp only [decLoop] at h; injection h with h1 h2; subst h1 h2
        exact ⟨by simp, fun x hx => hacc x (List.mem_reverse.1 hx), hb⟩
      | succ n ihn =>
        intro bs hb acc vs rest hacc h
        simp only [decLoop] at h
        cases hd : dec t bs with
        | err e k => rw [hd] at h; cases h
        | ok x r =>
          rw [hd] at h
          obtain ⟨w1, w2⟩ := ih bs hb x r hd
          obtain ⟨a1, a2, a3⟩ := ihn r w2 (x :: acc) vs rest
            (fun y hy => by rcases List.mem_cons.1 hy with h | h; exact h ▸ w1; exact hacc y h) h
          exact ⟨by simp at a1; omega, a2, a3⟩
    obtain ⟨a1, a2, a3⟩ := key n bs hb [] v rest (by intro x hx; cases hx) h
    exact ⟨⟨by simpa using a1, a2⟩, a3⟩
  | bytes m =>
    simp only [dec] at h
    cases h' : readLen bs with
    | err e n => rw [h'] at h; cases h
    | ok len r =>
      rw [h'] at h
      obtain ⟨e1, e2, e3⟩ := readLen_ok hb h'
      have hr : BytesOK r := by rw [← e1] at hb; exact hb.right
      simp only at h
      split at h
      · injection h with h1 h2; subst h1 h2; exact ⟨by simp [WF], hr⟩
      · split at h
        · cases h
        · rename_i hm
          injection h with h1 h2; subst h1 h2
          refine ⟨⟨?_, ?_⟩, hr.drop _⟩
          · rw [List.length_take, Nat.min_eq_left e2]; exact e3
          · rw [List.length_take, Nat.min_eq_left e2]; omega
  | str m =>
    simp only [dec] at h
    cases h' : readLen bs with
    | err e n => rw [h'] at h; cases h
    | ok len r =>
      rw [h'] at h
      obtain ⟨e1, e2, e3⟩ := readLen_ok hb h'
      have hr : BytesOK r := by rw [← e1] at hb; exact hb.right
      simp only at h
      split at h
      · cases h
      · rename_i hm
        injection h with h1 h2; subst h1 h2
        refine ⟨⟨?_, ?_⟩, hr.drop _⟩
        · rw [List.length_take, Nat.min_eq_left e2]; exact e3
        · rw [List.length_take, Nat.min_eq_left e2]; omega
  | slice m t ih =>
    simp only [dec] at h
    cases h' : readLen bs with
    | err e n => rw [h'] at h; cases h
    | ok len r =>
      rw [h'] at h
      obtain ⟨e1, e2, e3⟩ := readLen_ok hb h'
      have hr : BytesOK r := by rw [← e1] at hb; exact hb.right
      simp only at h
      split at h
      · injection h with h1 h2; subst h1 h2; exact ⟨by simp [WF], hr⟩
      · split at h
        · cases h
        · rename_i hm
          have key : ∀ (n : Nat) (bs : Bytes), BytesOK bs → ∀ (acc vs : List (Val t)) (rest : Bytes),
              (∀ x ∈ acc, WF t x) → decLoop (dec t) n bs acc = .ok vs rest →
              vs.length = acc.length + n ∧ (∀ x ∈ vs, WF t x) ∧ BytesOK rest := by
            intro n
            induction n with
            | zero =>
              intro bs hb acc vs rest hacc h
              simp only [decLoop] at h; injection h with h1 h2; subst h1 h2
              exact ⟨by simp, fun x hx => hacc x (List.mem_reverse.1 hx), hb⟩
            | succ n ihn =>
              intro bs hb acc vs rest hacc h
              simp only [decLoop] at h
              cases hd : dec t bs with
              | err e k => rw [hd] at h; cases h
              | ok x r =>
                rw [hd] at h
                obtain ⟨w1, w2⟩ := ih bs hb x r hd
                obtain ⟨a1, a2, a3⟩ := ihn r w2 (x :: acc) vs rest
                  (fun y hy => by rcases List.mem_cons.1 hy with h | h; exact h ▸ w1; exact hacc y h) h
                exact ⟨by simp at a1; omega, a2, a3⟩
          obtain ⟨a1, a2, a3⟩ := key len r hr [] v rest (by intro x hx; cases hx) h
          have a1 : v.length = len := by simpa using a1
          exact ⟨⟨by omega, by omega, a2⟩, a3⟩
  | unit => simp only [dec] at h; injection h with h1 h2; subst h2; exact ⟨trivial, hb⟩
  | pair a b iha ihb =>
    simp only [dec] at h
    cases ha : dec a bs with
    | err e n => rw [ha] at h; cases h
    | ok x r =>
      rw [ha] at h; simp only at h
      obtain ⟨w1, w2⟩ := iha bs hb x r ha
      cases hb' : dec b r with
      | err e n => rw [hb'] at h; cases h
      | ok y r' =>
        rw [hb'] at h; simp only at h; injection h with h1 h2; subst h1 h2
        obtain ⟨w3, w4⟩ := ihb r w2 y r' hb'
        exact ⟨⟨w1, w3⟩, w4⟩
  | omitempty t ih =>
    rw [dec] at h
    split at h
    · injection h with h1 h2; subst h1 h2; exact ⟨zero_wf t, BytesOK.nil⟩
    · exact ih bs hb _ _ h

/-- decoding only looks at the bytes it consumes (omitempty-free schemas). -/
theorem dec_append (t : Ty) (hno : NoOmit t = true) (ht : TyOK t = true) (bs : Bytes)
    (hb : BytesOK bs) (v : Val t) (rest extra : Bytes) (h : dec t bs = .ok v rest) :
    dec t (bs ++ extra) = .ok v (rest ++ extra) := by
  have e := dec_canonical t hno bs hb v rest h
  have w := (dec_wf t bs hb v rest h).1
  rw [← e, List.append_assoc]
  exact dec_enc t hno ht v w _

/-! ### `omitempty` -/

/-- the omitempty field (if any) of the outermost struct is empty -/
def lastEmpty : (t : Ty) → Val t → Bool
  | .pair _ b, (_, y) => lastEmpty b y
  | .omitempty t, v => isEmpty t v
  | _, _ => false

theorem isEmpty_eq_zero (t : Ty) (v : Val t) (he : isEmpty t v = true) : v = zero t := by
  cases t <;> simp [isEmpty] at he <;> simpa [zero] using he

theorem enc_of_isEmpty (t : Ty) (v : Val t) (he : isEmpty t v = true) : enc t v = [0, 0, 0, 0] := by
  cases t <;> simp [isEmpty] at he <;> subst he <;> simp [enc, leBytes]

theorem enc_sliceLike_length (t : Ty) (hs : sliceLike t = true) (v : Val t) : 4 ≤ (enc t v).length := by
  cases t <;> simp [sliceLike] at hs <;> simp [enc]

theorem dec_sliceLike_nil (t : Ty) (hs : sliceLike t = true) :
    dec t [] = .err .underflow 0 := by
  cases t <;> simp [sliceLike] at hs <;> simp [dec, readLen, readLE, readN, lenGe, DRes.map]

/-- generated decoder = reference decoder, on every byte string of every schema (one function since the
repair of `encoder.go`; the name is kept because the property speaks of two decoders and the tie to the
two Go implementations is separate: `gen_X_refines` for the generated code, H for both). -/
theorem decG_eq_dec (t : Ty) (bs : Bytes) : decG t bs = dec t bs := rfl

theorem noOmit_of_tyOK_array {n t} (h : TyOK (.array n t) = true) : NoOmit (.array n t) = true := by
  simp only [TyOK, Bool.and_eq_true] at h; simpa [NoOmit] using h.1
theorem noOmit_of_tyOK_slice {m t} (h : TyOK (.slice m t) = true) : NoOmit (.slice m t) = true := by
  simp only [TyOK, Bool.and_eq_true] at h; simpa [NoOmit] using h.1.1

/-- **Round trip, exact** — also with an omitempty last field: decoding exactly the encoding gives the
value back and consumes everything (both decoders). -/
theorem dec_enc_exact (t : Ty) (ht : TyOK t = true) (v : Val t) (hw : WF t v) :
    dec t (enc t v) = .ok v [] := by
  induction t with
  | u8 | u16 | u32 | u64 | i8 | i16 | i32 | i64 | bool | bytesN _ | bytes _ | str _ | unit =>
    have := dec_enc _ rfl ht v hw []; simpa using this
  | array n t _ => have := dec_enc _ (noOmit_of_tyOK_array ht) ht v hw []; simpa using this
  | slice m t _ => have := dec_enc _ (noOmit_of_tyOK_slice ht) ht v hw []; simpa using this
  | pair a b _ ihb =>
    obtain ⟨x, y⟩ := v
    obtain ⟨hwa, hwb⟩ := hw
    simp only [TyOK, Bool.and_eq_true] at ht
    simp only [dec, enc]
    rw [dec_enc a ht.1.1 ht.1.2 x hwa]
    simp only
    rw [ihb ht.2 y hwb]
  | omitempty t _ =>
    simp only [TyOK, Bool.and_eq_true] at ht
    simp only [enc]
    split
    · rename_i he
      have hz := isEmpty_eq_zero t v he
      rw [dec]; simp [hz]
    · have hd := dec_enc t ht.1.2 ht.2 v hw []
      rw [List.append_nil] at hd
      have hl := enc_sliceLike_length t ht.1.1 v
      have : (enc t v).isEmpty = false := by
        cases h : enc t v with
        | nil => rw [h] at hl; simp at hl
        | cons _ _ => rfl
      rw [dec]; simp [hd, this]

/-- **Canonicity of the GENERATED decoder, with omitempty** — the exact statement: what it decodes
re-encodes to the consumed bytes, except that an explicitly encoded empty last field
(`00 00 00 00`) is dropped by the encoder. -/
theorem decG_canonical_omit (t : Ty) (ht : TyOK t = true) (bs : Bytes) (hb : BytesOK bs)
    (v : Val t) (rest : Bytes) (h : decG t bs = .ok v rest) :
    enc t v ++ rest = bs ∨ (lastEmpty t v = true ∧ enc t v ++ (0 :: 0 :: 0 :: 0 :: rest) = bs) := by
  induction t generalizing bs rest with
  | u8 | u16 | u32 | u64 | i8 | i16 | i32 | i64 | bool | bytesN _ | bytes _ | str _ | unit =>
    exact Or.inl (dec_canonical _ rfl bs hb v rest h)
  | array n t _ => exact Or.inl (dec_canonical _ (noOmit_of_tyOK_array ht) bs hb v rest h)
  | slice m t _ => exact Or.inl (dec_canonical _ (noOmit_of_tyOK_slice ht) bs hb v rest h)
  | pair a b _ ihb =>
    simp only [TyOK, Bool.and_eq_true] at ht
    simp only [decG, dec] at h
    cases ha : dec a bs with
    | err e n => rw [ha] at h; cases h
    | ok x r =>
      rw [ha] at h; simp only at h
      have e1 := dec_canonical a ht.1.1 bs hb x r ha
      have hr : BytesOK r := by rw [← e1] at hb; exact hb.right
      cases hb' : dec b r with
      | err e n => rw [hb'] at h; cases h
      | ok y r' =>
        rw [hb'] at h; simp only at h; injection h with h1 h2; subst h1 h2
        rcases ihb ht.2 r hr y r' hb' with e2 | ⟨l2, e2⟩
        · left; simp only [enc, List.append_assoc]; rw [e2, e1]
        · right; exact ⟨l2, by simp only [enc, List.append_assoc]; rw [e2, e1]⟩
  | omitempty t _ =>
    simp only [TyOK, Bool.and_eq_true] at ht
    rw [decG, dec] at h
    split at h
    · rename_i hnil
      injection h with h1 h2; subst h1 h2
      have : bs = [] := by cases bs <;> simp_all
      subst this
      left
      have : isEmpty t (zero t) = true := by
        cases t <;> simp [sliceLike] at ht <;> simp [isEmpty, zero]
      simp [enc, this]
    · have e1 := dec_canonical t ht.1.2 bs hb v rest h
      simp only [enc, lastEmpty]
      by_cases he : isEmpty t v = true
      · right
        refine ⟨he, ?_⟩
        rw [enc_of_isEmpty t v he] at e1
        simpa [he] using e1
      · left; simpa [he] using e1

/-- on a non-empty last field the generated decoder is canonical -/
theorem decG_canonical_of_not_lastEmpty (t : Ty) (ht : TyOK t = true) (bs : Bytes) (hb : BytesOK bs)
    (v : Val t) (rest : Bytes) (h : decG t bs = .ok v rest) (hl : lastEmpty t v = false) :
    enc t v ++ rest = bs := by
  rcases decG_canonical_omit t ht bs hb v rest h with e | ⟨l, _⟩
  · exact e
  · rw [hl] at l; cases l

/-! ### error kinds -/

def HasBool : Ty → Bool
  | .bool => true
  | .array _ t | .slice _ t | .omitempty t => HasBool t
  | .pair a b => HasBool a || HasBool b
  | _ => false

def HasMaxLen : Ty → Bool
  | .bytes m | .str m => decide (0 < m)
  | .slice m t => decide (0 < m) || HasMaxLen t
  | .array _ t | .omitempty t => HasMaxLen t
  | .pair a b => HasMaxLen a || HasMaxLen b
  | _ => false

/-- which error kinds a (non-exact) decoder can return: never `ErrRemainingBytes`; `ErrInvalidBool`
only for schemas containing a bool; `ErrMaxLenExceeded` only for schemas with a `maxlen` tag. -/
theorem dec_err_kinds (t : Ty) (bs : Bytes) (e : DecErr) (k : Nat)
    (h : dec t bs = .err e k) :
    e ≠ .remaining ∧ (e = .invalidBool → HasBool t = true) ∧ (e = .maxlen → HasMaxLen t = true) := by
  induction t generalizing bs e k with
  | u8 | u16 | u32 | u64 =>
    obtain ⟨h1, _⟩ := readLE_err h; subst h1; simp
  | i8 | i16 | i32 | i64 =>
    simp only [dec] at h
    cases h' : readLE _ bs with
    | ok x r => rw [h'] at h; cases h
    | err e' k' =>
      rw [h'] at h; simp only [DRes.map] at h; injection h with h1 h2; subst h1 h2
      obtain ⟨h1, _⟩ := readLE_err h'; subst h1; simp
  | bool =>
    simp only [dec] at h
    cases bs with
    | nil => simp only [readBool] at h; injection h with h1 _; subst h1; simp [HasBool]
    | cons b r =>
      simp only [readBool] at h
      split at h
      · cases h
      · split at h
        · cases h
        · injection h with h1 _; subst h1; simp [HasBool]
  | bytesN n => obtain ⟨h1, _⟩ := readN_err h; subst h1; simp
  | array n t ih =>
    simp only [dec] at h
    exact decLoop_err (dec t) (fun e _ => e ≠ .remaining ∧ (e = .invalidBool → HasBool (.array n t) = true) ∧
      (e = .maxlen → HasMaxLen (.array n t) = true)) (fun bs e k hh => by simpa [HasBool, HasMaxLen] using ih bs e k hh) n bs [] e k h
  | bytes m =>
    simp only [dec] at h
    cases h' : readLen bs with
    | err e' k' =>
      rw [h'] at h; simp only at h; injection h with h1 h2; subst h1 h2
      simp only [readLen] at h'
      cases h'' : readLE 4 bs with
      | err e2 k2 => rw [h''] at h'; simp only at h'; injection h' with h1 _; subst h1; obtain ⟨h1, _⟩ := readLE_err h''; subst h1; simp
      | ok x r => rw [h''] at h'; simp only at h'; split at h'; cases h'; injection h' with h1 _; subst h1; simp
    | ok len r =>
      rw [h'] at h; simp only at h
      split at h
      · cases h
      · split at h
        · rename_i hm; injection h with h1 _; subst h1; simp [HasMaxLen]; omega
        · cases h
  | str m =>
    simp only [dec] at h
    cases h' : readLen bs with
    | err e' k' =>
      rw [h'] at h; simp only at h; injection h with h1 h2; subst h1 h2
      simp only [readLen] at h'
      cases h'' : readLE 4 bs with
      | err e2 k2 => rw [h''] at h'; simp only at h'; injection h' with h1 _; subst h1; obtain ⟨h1, _⟩ := readLE_err h''; subst h1; simp
      | ok x r => rw [h''] at h'; simp only at h'; split at h'; cases h'; injection h' with h1 _; subst h1; simp
    | ok len r =>
      rw [h'] at h; simp only at h
      split at h
      · rename_i hm; injection h with h1 _; subst h1; simp [HasMaxLen]; omega
      · cases h
  | slice m t ih =>
    simp only [dec] at h
    cases h' : readLen bs with
    | err e' k' =>
      rw [h'] at h; simp only at h; injection h with h1 h2; subst h1 h2
      simp only [readLen] at h'
      cases h'' : readLE 4 bs with
      | err e2 k2 => rw [h''] at h'; simp only at h'; injection h' with h1 _; subst h1; obtain ⟨h1, _⟩ := readLE_err h''; subst h1; simp
      | ok x r => rw [h''] at h'; simp only at h'; split at h'; cases h'; injection h' with h1 _; subst h1; simp
    | ok len r =>
      rw [h'] at h; simp only at h
      split at h
      · cases h
      · split at h
        · rename_i hm; injection h with h1 _; subst h1; simp [HasMaxLen]; omega
        · exact decLoop_err (dec t) (fun e _ => e ≠ .remaining ∧ (e = .invalidBool → HasBool (.slice m t) = true) ∧
            (e = .maxlen → HasMaxLen (.slice m t) = true))
            (fun bs e k hh => by
              obtain ⟨a1, a2, a3⟩ := ih bs e k hh
              exact ⟨a1, by simpa [HasBool] using a2, fun he => by simp [HasMaxLen, a3 he]⟩) len r [] e k h
  | unit => simp [dec] at h
  | pair a b iha ihb =>
    simp only [dec] at h
    cases ha : dec a bs with
    | err e' k' =>
      rw [ha] at h; simp only at h; injection h with h1 h2; subst h1 h2
      obtain ⟨a1, a2, a3⟩ := iha bs _ _ ha
      exact ⟨a1, fun he => by simp [HasBool, a2 he], fun he => by simp [HasMaxLen, a3 he]⟩
    | ok x r =>
      rw [ha] at h; simp only at h
      cases hb' : dec b r with
      | ok y r' => rw [hb'] at h; cases h
      | err e' k' =>
        rw [hb'] at h; simp only at h; injection h with h1 h2; subst h1 h2
        obtain ⟨a1, a2, a3⟩ := ihb r _ _ hb'
        exact ⟨a1, fun he => by simp [HasBool, a2 he], fun he => by simp [HasMaxLen, a3 he]⟩
  | omitempty t ih =>
    rw [dec] at h
    split at h
    · cases h
    · simpa [HasBool, HasMaxLen] using ih bs e k h

/-- exact decoding reports `ErrRemainingBytes` precisely when the plain decoder succeeds and leaves bytes -/
theorem exact_remaining_iff (t : Ty) (bs : Bytes) :
    exact (dec t bs) = .error .remaining ↔ ∃ v b rest, dec t bs = .ok v (b :: rest) := by
  cases h : dec t bs with
  | err e k =>
    have := (dec_err_kinds t bs e k h).1
    simp [exact, this]
  | ok v rest => cases rest <;> simp [exact]

theorem exact_ok_iff {α} (r : DRes α) (v : α) : exact r = .ok v ↔ r = .ok v [] := by
  cases r with
  | err e k => simp [exact]
  | ok v' rest => cases rest <;> simp [exact]

/-- the underflow test comes before the maxlen test: a length prefix larger than the rest of the buffer
is `ErrBufferUnderflow` whatever `maxlen` says. -/
theorem dec_slice_underflow_first (m : Nat) (t : Ty) (len : Nat) (body : Bytes)
    (h1 : len < 2 ^ 32) (h2 : body.length < len) :
    dec (.slice m t) (leBytes 4 len ++ body) = .err .underflow body.length := by
  have : lenGe body len = false := by
    cases h : lenGe body len with
    | false => rfl
    | true => have := (lenGe_iff _ _).1 h; omega
  simp [dec, readLen, readLE_append 4 len body (by omega), this]

/-- a satisfiable but too large length prefix is `ErrMaxLenExceeded` (before any element is read). -/
theorem dec_slice_maxlen (m : Nat) (t : Ty) (len : Nat) (body : Bytes)
    (h1 : len < 2 ^ 32) (h2 : len ≤ body.length) (hm : 0 < m) (h3 : m < len) :
    dec (.slice m t) (leBytes 4 len ++ body) = .err .maxlen body.length := by
  rw [dec, readLen_append len body h1 h2]
  have h0 : len ≠ 0 := by omega
  simp [h0, hm, h3]

/-! ### the generated encoder's maxlen enforcement -/

/-- every `maxlen`-tagged field is within its bound -/
def MaxLenOK : (t : Ty) → Val t → Prop
  | .array _ t, v => ∀ x ∈ v, MaxLenOK t x
  | .bytes m, v => m = 0 ∨ v.length ≤ m
  | .str m, v => m = 0 ∨ v.length ≤ m
  | .slice m t, v => (m = 0 ∨ v.length ≤ m) ∧ ∀ x ∈ v, MaxLenOK t x
  | .pair a b, (x, y) => MaxLenOK a x ∧ MaxLenOK b y
  | .omitempty t, v => MaxLenOK t v
  | _, _ => True

/-- every slice / string length fits the `uint32` length prefix -/
def LenOK : (t : Ty) → Val t → Prop
  | .array _ t, v => ∀ x ∈ v, LenOK t x
  | .bytes _, v => v.length < 2 ^ 32
  | .str _, v => v.length < 2 ^ 32
  | .slice _ t, v => v.length < 2 ^ 32 ∧ ∀ x ∈ v, LenOK t x
  | .pair a b, (x, y) => LenOK a x ∧ LenOK b y
  | .omitempty t, v => LenOK t v
  | _, _ => True

theorem firstErr_none_iff {α} (f : α → Option EncErr) (vs : List α) :
    firstErr f vs = none ↔ ∀ x ∈ vs, f x = none := by
  induction vs with
  | nil => simp [firstErr]
  | cons v vs ih =>
    simp only [firstErr]
    cases h : f v with
    | some e => simp [h]
    | none => simp [h, ih]

theorem firstErr_some {α} (f : α → Option EncErr) (vs : List α) (e : EncErr) (h : firstErr f vs = some e) :
    ∃ x ∈ vs, f x = some e := by
  induction vs with
  | nil => simp [firstErr] at h
  | cons v vs ih =>
    simp only [firstErr] at h
    cases h' : f v with
    | some e' => rw [h'] at h; injection h with h; subst h; exact ⟨v, by simp, h'⟩
    | none => rw [h'] at h; obtain ⟨x, hx, hf⟩ := ih h; exact ⟨x, by simp [hx], hf⟩

theorem lenCheck_none_iff (m len : Nat) : lenCheck m len = none ↔ (m = 0 ∨ len ≤ m) ∧ len < 2 ^ 32 := by
  unfold lenCheck; split
  · simp; omega
  · split
    · simp; omega
    · simp; omega

theorem lenCheck_maxlen (m len : Nat) (h : lenCheck m len = some .maxlen) : ¬ (m = 0 ∨ len ≤ m) := by
  unfold lenCheck at h; split at h
  · omega
  · split at h <;> simp at h

theorem lenCheck_lenOverflow (m len : Nat) (h : lenCheck m len = some .lenOverflow) : ¬ len < 2 ^ 32 := by
  unfold lenCheck at h; split at h
  · simp at h
  · split at h
    · omega
    · simp at h

theorem empty_lenOK (t : Ty) (v : Val t) (he : isEmpty t v = true) : MaxLenOK t v ∧ LenOK t v := by
  cases t <;> simp [isEmpty] at he <;> subst he <;> simp [MaxLenOK, LenOK]

/-- generated `encodeX` succeeds exactly on the values whose tagged fields are within `maxlen` (and whose
lengths fit a `uint32`). -/
theorem encCheck_none_iff (t : Ty) (v : Val t) : encCheck t v = none ↔ MaxLenOK t v ∧ LenOK t v := by
  induction t with
  | u8 | u16 | u32 | u64 | i8 | i16 | i32 | i64 | bool | bytesN _ | unit => simp [encCheck, MaxLenOK, LenOK]
  | array n t ih =>
    simp only [encCheck, MaxLenOK, LenOK, firstErr_none_iff]
    constructor
    · intro h; exact ⟨fun x hx => ((ih x).1 (h x hx)).1, fun x hx => ((ih x).1 (h x hx)).2⟩
    · rintro ⟨h1, h2⟩ x hx; exact (ih x).2 ⟨h1 x hx, h2 x hx⟩
  | bytes m => simp only [encCheck, MaxLenOK, LenOK]; exact lenCheck_none_iff m v.length
  | str m => simp only [encCheck, MaxLenOK, LenOK]; exact lenCheck_none_iff m v.length
  | slice m t ih =>
    simp only [encCheck, MaxLenOK, LenOK]
    cases hl : lenCheck m v.length with
    | some e =>
      simp only [reduceCtorEq, false_iff]
      rintro ⟨⟨h1, _⟩, h2, _⟩
      have := (lenCheck_none_iff m v.length).2 ⟨h1, h2⟩
      rw [hl] at this; cases this
    | none =>
      have := (lenCheck_none_iff m v.length).1 hl
      simp only [firstErr_none_iff]
      constructor
      · intro h; exact ⟨⟨this.1, fun x hx => ((ih x).1 (h x hx)).1⟩, this.2, fun x hx => ((ih x).1 (h x hx)).2⟩
      · rintro ⟨⟨_, h1⟩, _, h2⟩ x hx; exact (ih x).2 ⟨h1 x hx, h2 x hx⟩
  | pair a b iha ihb =>
    obtain ⟨x, y⟩ := v
    simp only [encCheck, MaxLenOK, LenOK]
    cases ha : encCheck a x with
    | some e =>
      simp only [reduceCtorEq, false_iff]
      rintro ⟨⟨h1, _⟩, h2, _⟩
      have := (iha x).2 ⟨h1, h2⟩
      rw [ha] at this; cases this
    | none =>
      have := (iha x).1 ha
      simp only [ihb y]
      constructor
      · rintro ⟨h1, h2⟩; exact ⟨⟨this.1, h1⟩, this.2, h2⟩
      · rintro ⟨⟨_, h1⟩, _, h2⟩; exact ⟨h1, h2⟩
  | omitempty t ih =>
    simp only [encCheck, MaxLenOK, LenOK]
    split
    · rename_i he; simpa using empty_lenOK t v he
    · exact ih v

theorem encCheck_maxlen (t : Ty) (v : Val t) (h : encCheck t v = some .maxlen) : ¬ MaxLenOK t v := by
  induction t with
  | u8 | u16 | u32 | u64 | i8 | i16 | i32 | i64 | bool | bytesN _ | unit => simp [encCheck] at h
  | array n t ih =>
    simp only [encCheck] at h
    obtain ⟨x, hx, hf⟩ := firstErr_some _ _ _ h
    intro hm; exact ih x hf (hm x hx)
  | bytes m => simp only [encCheck] at h; exact lenCheck_maxlen m _ h
  | str m => simp only [encCheck] at h; exact lenCheck_maxlen m _ h
  | slice m t ih =>
    simp only [encCheck] at h
    cases hl : lenCheck m v.length with
    | some e => rw [hl] at h; simp only at h; injection h with h; subst h; intro hm; exact lenCheck_maxlen m _ hl hm.1
    | none =>
      rw [hl] at h; simp only at h
      obtain ⟨x, hx, hf⟩ := firstErr_some _ _ _ h
      intro hm; exact ih x hf (hm.2 x hx)
  | pair a b iha ihb =>
    obtain ⟨x, y⟩ := v
    simp only [encCheck] at h
    cases ha : encCheck a x with
    | some e => rw [ha] at h; simp only at h; injection h with h; subst h; intro hm; exact iha x ha hm.1
    | none => rw [ha] at h; simp only at h; intro hm; exact ihb y h hm.2
  | omitempty t ih =>
    simp only [encCheck] at h
    split at h
    · cases h
    · exact ih v h

theorem encCheck_lenOverflow (t : Ty) (v : Val t) (h : encCheck t v = some .lenOverflow) : ¬ LenOK t v := by
  induction t with
  | u8 | u16 | u32 | u64 | i8 | i16 | i32 | i64 | bool | bytesN _ | unit => simp [encCheck] at h
  | array n t ih =>
    simp only [encCheck] at h
    obtain ⟨x, hx, hf⟩ := firstErr_some _ _ _ h
    intro hm; exact ih x hf (hm x hx)
  | bytes m => simp only [encCheck] at h; exact lenCheck_lenOverflow m _ h
  | str m => simp only [encCheck] at h; exact lenCheck_lenOverflow m _ h
  | slice m t ih =>
    simp only [encCheck] at h
    cases hl : lenCheck m v.length with
    | some e => rw [hl] at h; simp only at h; injection h with h; subst h; intro hm; exact lenCheck_lenOverflow m _ hl hm.1
    | none =>
      rw [hl] at h; simp only at h
      obtain ⟨x, hx, hf⟩ := firstErr_some _ _ _ h
      intro hm; exact ih x hf (hm.2 x hx)
  | pair a b iha ihb =>
    obtain ⟨x, y⟩ := v
    simp only [encCheck] at h
    cases ha : encCheck a x with
    | some e => rw [ha] at h; simp only at h; injection h with h; subst h; intro hm; exact iha x ha hm.1
    | none => rw [ha] at h; simp only at h; intro hm; exact ihb y h hm.2
  | omitempty t ih =>
    simp only [encCheck] at h
    split at h
    · cases h
    · exact ih v h

theorem wf_lenOK (t : Ty) (v : Val t) (hw : WF t v) : MaxLenOK t v ∧ LenOK t v := by
  induction t with
  | u8 | u16 | u32 | u64 | i8 | i16 | i32 | i64 | bool | bytesN _ | unit => simp [MaxLenOK, LenOK]
  | array n t ih => exact ⟨fun x hx => (ih x (hw.2 x hx)).1, fun x hx => (ih x (hw.2 x hx)).2⟩
  | bytes m => exact ⟨hw.2, hw.1⟩
  | str m => exact ⟨hw.2, hw.1⟩
  | slice m t ih => exact ⟨⟨hw.2.1, fun x hx => (ih x (hw.2.2 x hx)).1⟩, hw.1, fun x hx => (ih x (hw.2.2 x hx)).2⟩
  | pair a b iha ihb =>
    obtain ⟨x, y⟩ := v
    exact ⟨⟨(iha x hw.1).1, (ihb y hw.2).1⟩, (iha x hw.1).2, (ihb y hw.2).2⟩
  | omitempty t ih => exact ih v hw

/-- whenever generated `encodeX` returns bytes, they are the reference encoder's bytes -/
theorem encG_ok (t : Ty) (v : Val t) (b : Bytes) (h : encG t v = .ok b) : b = enc t v := by
  unfold encG at h; split at h
  · cases h
  · injection h with h; exact h.symm

theorem encG_of_wf (t : Ty) (v : Val t) (hw : WF t v) : encG t v = .ok (enc t v) := by
  have := (encCheck_none_iff t v).2 (wf_lenOK t v hw)
  simp [encG, this]

/-- **the generated encoder refuses exactly when a tagged field exceeds its maxlen** -/
theorem encG_maxlen_iff (t : Ty) (v : Val t) (hl : LenOK t v) : encG t v = .error .maxlen ↔ ¬ MaxLenOK t v := by
  unfold encG
  cases h : encCheck t v with
  | none => simp only [reduceCtorEq, false_iff, Classical.not_not]; exact ((encCheck_none_iff t v).1 h).1
  | some e =>
    cases e with
    | maxlen => simp only [true_iff]; exact encCheck_maxlen t v h
    | lenOverflow => exact absurd hl (encCheck_lenOverflow t v h)

end Sky.Codec
