/-
  Sky.Codec.Prog — the flat op programs that skyencoder-GENERATED code performs (what
  `tools/extract/codecgen` reads out of the `*_skyencoder.go` files), the program skyencoder is expected
  to emit for a schema (`refCodec`), and an operational semantics of the programs (`runDec`, `runEnc`,
  `runSize`: Ty-directed for the VALUES, program-directed for every guard, constant and order of checks;
  unlike the reference semantics it can PANIC — a slice expression without its guard).
  Core Lean only.

  Tie T of C21:  `Sky/Gen/Codecs.lean` contains for each generated file the extracted programs and
  `theorem gen_X_refines : denote prog_X = refCodec ty_X := by decide`; the generic theorems of
  `Sky/Codec/ProgLemmas.lean` say what a program equal to `refCodec t` computes (`decG t`, `encG t`,
  `size t`, and never panics).
-/
import Sky.Codec.Basic
namespace Sky.Codec

inductive Prim where
  | u8 | u16 | u32 | u64 | i8 | i16 | i32 | i64 | bool
deriving DecidableEq, Repr, Inhabited

def Prim.ty : Prim → Ty
  | .u8 => .u8 | .u16 => .u16 | .u32 => .u32 | .u64 => .u64
  | .i8 => .i8 | .i16 => .i16 | .i32 => .i32 | .i64 => .i64 | .bool => .bool

/-- generated `decodeX`: one constructor per recognised block shape, `next` = the blocks that follow.
* `prim p`            `{ i, err := d.P(); if err != nil { return 0, err }; obj.f = i }`
* `copyN guard n`     `{ [if len(d.Buffer) < guard { return 0, ErrBufferUnderflow }]; copy(obj.f[:], d.Buffer[:n]); d.Buffer = d.Buffer[n:] }`
* `lenBytes eof uchk max`
                      `{ [if len(d.Buffer) == 0 { return consumed, nil }]            -- eof (omitempty)
                         ul, err := d.Uint32(); if err != nil { return 0, err }; length := int(ul)
                         [if length < 0 || length > len(d.Buffer) { return 0, ErrBufferUnderflow }]   -- uchk
                         [if length > max { return 0, ErrMaxLenExceeded }]                          -- max ≠ 0
                         if length != 0 { obj.f = make([]byte, length); copy(obj.f[:], d.Buffer[:length]); d.Buffer = d.Buffer[length:] } }`
* `lenLoop eof uchk max body`   same head, then `if length != 0 { obj.f = make([]T, length); for z := range obj.f { body } }` -/
inductive DProg where
  | done
  | prim (p : Prim) (next : DProg)
  | copyN (guard : Option Nat) (n : Nat) (next : DProg)
  | lenBytes (eofSkip uchk : Bool) (maxlen : Nat) (next : DProg)
  | lenLoop (eofSkip uchk : Bool) (maxlen : Nat) (body next : DProg)
deriving DecidableEq, Repr, Inhabited

/-- generated `encodeXToBuffer` (after the prologue `if len(buf) < encodeSizeX(obj) { return ErrBufferUnderflow }`):
* `prim p`         `e.P(x.f)`
* `copyN n`        `e.CopyBytes(x.f[:])`  (an `[n]byte`)
* `lenBytes omit max lenchk`
                   `[if len(x.f) != 0 {]  [if len(x.f) > max { return ErrMaxLenExceeded }]  [if uint64(len(x.f)) > math.MaxUint32 { return errors.New(…) }]
                    e.Uint32(uint32(len(x.f))); e.CopyBytes(x.f)  [}]`
* `lenLoop omit max lenchk body`   same head, then `for _, x := range x.f { body }` -/
inductive EProg where
  | done
  | prim (p : Prim) (next : EProg)
  | copyN (n : Nat) (next : EProg)
  | lenBytes (oe : Bool) (maxlen : Nat) (lenchk : Bool) (next : EProg)
  | lenLoop (oe : Bool) (maxlen : Nat) (lenchk : Bool) (body next : EProg)
deriving DecidableEq, Repr, Inhabited

/-- generated `encodeSizeX`:
* `add n`           `i += n` (`i++` for 1)
* `lenBytes omit`   `[if len(x.f) != 0 {] i += 4 + uint64(len(x.f)) [}]`
* `lenMul omit el`  `[if …{] i += 4; { j := uint64(0); el; i += uint64(len(x.f)) * j } [}]`   (elements of fixed size)
* `lenLoop omit el` `[if …{] i += 4; for _, y := range x.f { j := uint64(0); el; i += j } [}]` -/
inductive SProg where
  | done
  | add (n : Nat) (next : SProg)
  | lenBytes (oe : Bool) (next : SProg)
  | lenMul (oe : Bool) (elem next : SProg)
  | lenLoop (oe : Bool) (elem next : SProg)
deriving DecidableEq, Repr, Inhabited

structure GenCodec where
  dec : DProg
  enc : EProg
  size : SProg
deriving DecidableEq, Repr, Inhabited

/-! ### the program skyencoder is expected to emit for a schema -/

def primOf : Ty → Option Prim
  | .u8 => some .u8 | .u16 => some .u16 | .u32 => some .u32 | .u64 => some .u64
  | .i8 => some .i8 | .i16 => some .i16 | .i32 => some .i32 | .i64 => some .i64 | .bool => some .bool
  | _ => none

def primSize : Prim → Nat
  | .u8 | .i8 | .bool => 1 | .u16 | .i16 => 2 | .u32 | .i32 => 4 | .u64 | .i64 => 8

/-- the encoded size does not depend on the value (skyencoder then multiplies instead of looping) -/
def isStatic : Ty → Bool
  | .bytes _ | .str _ | .slice _ _ | .omitempty _ => false
  | .array _ t => isStatic t
  | .pair a b => isStatic a && isStatic b
  | _ => true

/-- expected decoder program for `t` followed by `k`; `omit`: `t` is the omitempty last field.
`none`: no generated shape is known for this schema (strings, arrays of non-bytes, nested omitempty). -/
def compileDec : (t : Ty) → (oe : Bool) → DProg → Option DProg
  | .bytesN n, false, k => some (.copyN (some n) n k)
  | .bytes m, o, k => some (.lenBytes o true m k)
  | .slice m t, o, k => (compileDec t false .done).map fun b => .lenLoop o true m b k
  | .unit, false, k => some k
  | .pair a b, false, k => (compileDec b false k).bind fun kb => compileDec a false kb
  | .omitempty t, false, k => compileDec t true k
  | .u8, false, k => some (.prim .u8 k) | .u16, false, k => some (.prim .u16 k)
  | .u32, false, k => some (.prim .u32 k) | .u64, false, k => some (.prim .u64 k)
  | .i8, false, k => some (.prim .i8 k) | .i16, false, k => some (.prim .i16 k)
  | .i32, false, k => some (.prim .i32 k) | .i64, false, k => some (.prim .i64 k)
  | .bool, false, k => some (.prim .bool k)
  | _, _, _ => none

def compileEnc : (t : Ty) → (oe : Bool) → EProg → Option EProg
  | .bytesN n, false, k => some (.copyN n k)
  | .bytes m, o, k => some (.lenBytes o m true k)
  | .slice m t, o, k => (compileEnc t false .done).map fun b => .lenLoop o m true b k
  | .unit, false, k => some k
  | .pair a b, false, k => (compileEnc b false k).bind fun kb => compileEnc a false kb
  | .omitempty t, false, k => compileEnc t true k
  | .u8, false, k => some (.prim .u8 k) | .u16, false, k => some (.prim .u16 k)
  | .u32, false, k => some (.prim .u32 k) | .u64, false, k => some (.prim .u64 k)
  | .i8, false, k => some (.prim .i8 k) | .i16, false, k => some (.prim .i16 k)
  | .i32, false, k => some (.prim .i32 k) | .i64, false, k => some (.prim .i64 k)
  | .bool, false, k => some (.prim .bool k)
  | _, _, _ => none

def compileSize : (t : Ty) → (oe : Bool) → SProg → Option SProg
  | .bytesN n, false, k => some (.add n k)
  | .bytes _, o, k => some (.lenBytes o k)
  | .slice _ t, o, k =>
    (compileSize t false .done).map fun b => if isStatic t then .lenMul o b k else .lenLoop o b k
  | .unit, false, k => some k
  | .pair a b, false, k => (compileSize b false k).bind fun kb => compileSize a false kb
  | .omitempty t, false, k => compileSize t true k
  | .u8, false, k | .i8, false, k | .bool, false, k => some (.add 1 k)
  | .u16, false, k | .i16, false, k => some (.add 2 k)
  | .u32, false, k | .i32, false, k => some (.add 4 k)
  | .u64, false, k | .i64, false, k => some (.add 8 k)
  | _, _, _ => none

/-- the codec skyencoder is expected to generate for schema `t` -/
def refCodec (t : Ty) : Option GenCodec := do
  let d ← compileDec t false .done
  let e ← compileEnc t false .done
  let s ← compileSize t false .done
  pure ⟨d, e, s⟩

/-- the extracted programs, as read (the identity: extraction already produced the normal form; kept so
that the obligation reads `denote prog_X = refCodec ty_X`) -/
def denote (g : GenCodec) : Option GenCodec := some g

end Sky.Codec

/-! ## operational semantics of the extracted programs

Values are placed by the schema (Go's type checker guarantees `obj.f = i` is well typed and codecgen checks
that the blocks address the fields in declaration order); every guard, constant, flag and the order of
the checks come from the PROGRAM.  Outcomes: normal, returned error, run-time panic (a slice expression
or an allocation that the program did not guard), or `unsupported` (a program shape outside the fragment,
e.g. an early `return` that is not the last block). -/
namespace Sky.Codec

inductive PRes (ε α : Type) where
  | ok (a : α)
  | err (e : ε)
  | panic (why : String)
  | unsupported
deriving Repr

/-- `for z := range obj.f { body }` -/
def runLoop {ε α} (f : Bytes → PRes ε (α × Bytes)) : Nat → Bytes → List α → PRes ε (List α × Bytes)
  | 0, bs, acc => .ok (acc.reverse, bs)
  | n+1, bs, acc =>
    match f bs with
    | .ok (x, r) => runLoop f n r (x :: acc)
    | .err e => .err e
    | .panic w => .panic w
    | .unsupported => .unsupported

def liftD {α} (k : DProg) : DRes α → PRes DecErr (α × Bytes × DProg)
  | .ok v r => .ok (v, r, k)
  | .err e _ => .err e

/-- the shared head of the two length-prefixed blocks: returns `(length, buffer after the prefix)`;
`none` = the early `return consumed, nil` of an omitempty field was taken. -/
def runLenHead (eof uchk : Bool) (max : Nat) (k : DProg) (bs : Bytes) : PRes DecErr (Option (Nat × Bytes)) :=
  if eof && bs.isEmpty then (if k = .done then .ok none else .unsupported) else
  match readLE 4 bs with
  | .err e _ => .err e
  | .ok len r =>
    if uchk && decide (len > r.length) then .err .underflow
    else if max > 0 ∧ len > max then .err .maxlen
    else .ok (some (len, r))

/-- generated `decodeX` (body between the prologue and the final `return consumed, nil`). Returns the
value, the unread buffer and the blocks not yet executed. -/
def runDec : (t : Ty) → DProg → Bytes → PRes DecErr (Val t × Bytes × DProg)
  | .u8, .prim .u8 k, bs => liftD k (dec .u8 bs)
  | .u16, .prim .u16 k, bs => liftD k (dec .u16 bs)
  | .u32, .prim .u32 k, bs => liftD k (dec .u32 bs)
  | .u64, .prim .u64 k, bs => liftD k (dec .u64 bs)
  | .i8, .prim .i8 k, bs => liftD k (dec .i8 bs)
  | .i16, .prim .i16 k, bs => liftD k (dec .i16 bs)
  | .i32, .prim .i32 k, bs => liftD k (dec .i32 bs)
  | .i64, .prim .i64 k, bs => liftD k (dec .i64 bs)
  | .bool, .prim .bool k, bs => liftD k (dec .bool bs)
  | .bytesN _, .copyN g n k, bs =>
    -- [if len(d.Buffer) < g { underflow }]; copy(obj.f[:], d.Buffer[:n]); d.Buffer = d.Buffer[n:]
    if (match g with | some gd => decide (bs.length < gd) | none => false) then .err .underflow
    else if bs.length < n then .panic "slice bounds out of range"
    else .ok (bs.take n, bs.drop n, k)
  | .bytes _, .lenBytes eof uchk max k, bs =>
    match runLenHead eof uchk max k bs with
    | .err e => .err e | .panic w => .panic w | .unsupported => .unsupported
    | .ok none => .ok ([], [], .done)
    | .ok (some (len, r)) =>
      if len = 0 then .ok ([], r, k)
      else if r.length < len then .panic "slice bounds out of range"
      else .ok (r.take len, r.drop len, k)
  | .slice _ t, .lenLoop eof uchk max body k, bs =>
    match runLenHead eof uchk max k bs with
    | .err e => .err e | .panic w => .panic w | .unsupported => .unsupported
    | .ok none => .ok ([], [], .done)
    | .ok (some (len, r)) =>
      if len = 0 then .ok ([], r, k)
      else if r.length < len then .panic "make([]T, length) with an unchecked attacker-chosen length"
      else
        match runLoop (fun b => match runDec t body b with
            | .ok (x, r', .done) => .ok (x, r')
            | .ok _ => .unsupported
            | .err e => .err e | .panic w => .panic w | .unsupported => .unsupported) len r [] with
        | .ok (xs, r') => .ok (xs, r', k)
        | .err e => .err e | .panic w => .panic w | .unsupported => .unsupported
  | .unit, p, bs => .ok ((), bs, p)
  | .pair a b, p, bs =>
    match runDec a p bs with
    | .err e => .err e | .panic w => .panic w | .unsupported => .unsupported
    | .ok (x, r, p') =>
      match runDec b p' r with
      | .err e => .err e | .panic w => .panic w | .unsupported => .unsupported
      | .ok (y, r', p'') => .ok ((x, y), r', p'')
  | .omitempty t, p, bs => runDec t p bs
  | _, _, _ => .unsupported

/-- whole generated `decodeX`: all blocks must be used up -/
def runDecode (t : Ty) (p : DProg) (bs : Bytes) : PRes DecErr (Val t × Bytes) :=
  match runDec t p bs with
  | .ok (v, r, .done) => .ok (v, r)
  | .ok _ => .unsupported
  | .err e => .err e | .panic w => .panic w | .unsupported => .unsupported

end Sky.Codec

/-! ### `encodeSizeX` and `encodeX` -/
namespace Sky.Codec

/-- a block of `i += n` statements only (the element-size block of a slice of fixed-size elements) -/
def staticSize : SProg → Option Nat
  | .done => some 0
  | .add n k => (staticSize k).map (n + ·)
  | _ => none

def sumSizes {α} (f : α → Option Nat) : List α → Option Nat
  | [] => some 0
  | x :: xs => match f x, sumSizes f xs with
    | some a, some b => some (a + b)
    | _, _ => none

/-- generated `encodeSizeX` (uint64 arithmetic is assumed not to wrap: sizes stay far below 2^64). -/
def runSize : (t : Ty) → SProg → Val t → Option (Nat × SProg)
  | .u8, .add n k, _ | .u16, .add n k, _ | .u32, .add n k, _ | .u64, .add n k, _
  | .i8, .add n k, _ | .i16, .add n k, _ | .i32, .add n k, _ | .i64, .add n k, _
  | .bool, .add n k, _ | .bytesN _, .add n k, _ => some (n, k)
  | .bytes _, .lenBytes oe k, v => some (if oe && v.isEmpty then 0 else 4 + v.length, k)
  | .slice _ _, .lenMul oe el k, v =>
    if oe && v.isEmpty then some (0, k) else (staticSize el).map fun s => (4 + v.length * s, k)
  | .slice _ t, .lenLoop oe el k, v =>
    if oe && v.isEmpty then some (0, k) else
    (sumSizes (fun x => match runSize t el x with | some (n, .done) => some n | _ => none) v).map
      fun s => (4 + s, k)
  | .unit, p, _ => some (0, p)
  | .pair a b, p, (x, y) =>
    match runSize a p x with
    | none => none
    | some (n, p') => match runSize b p' y with
      | none => none
      | some (m, p'') => some (n + m, p'')
  | .omitempty t, p, v => runSize t p v
  | _, _, _ => none

def runSizeOf (t : Ty) (p : SProg) (v : Val t) : Option Nat :=
  match runSize t p v with | some (n, .done) => some n | _ => none

/-- `e.Xxx(…)`: write `w` into a buffer with `cap` bytes left — a slice-bounds panic if it does not fit. -/
def writeE (w : Bytes) (cap : Nat) (k : EProg) : PRes EncErr (Bytes × Nat × EProg) :=
  if cap < w.length then .panic "slice bounds out of range" else .ok (w, cap - w.length, k)

def encLoop {α} (f : α → Nat → PRes EncErr (Bytes × Nat)) : List α → Nat → List Bytes → PRes EncErr (Bytes × Nat)
  | [], cap, acc => .ok (acc.reverse.flatten, cap)
  | x :: xs, cap, acc =>
    match f x cap with
    | .ok (w, cap') => encLoop f xs cap' (w :: acc)
    | .err e => .err e | .panic s => .panic s | .unsupported => .unsupported

/-- head of the length-prefixed encoder blocks: `none` = omitted (empty omitempty field) -/
def encLenHead (oe : Bool) (max : Nat) (lenchk : Bool) (len : Nat) : Except EncErr Bool :=
  if oe && len == 0 then .ok false
  else if max > 0 ∧ len > max then .error .maxlen
  else if lenchk && decide (len > 4294967295) then .error .lenOverflow
  else .ok true

/-- generated `encodeXToBuffer` body, writing into a buffer with `cap` bytes left. -/
def runEnc : (t : Ty) → EProg → Val t → Nat → PRes EncErr (Bytes × Nat × EProg)
  | .u8, .prim .u8 k, v, cap => writeE (enc .u8 v) cap k
  | .u16, .prim .u16 k, v, cap => writeE (enc .u16 v) cap k
  | .u32, .prim .u32 k, v, cap => writeE (enc .u32 v) cap k
  | .u64, .prim .u64 k, v, cap => writeE (enc .u64 v) cap k
  | .i8, .prim .i8 k, v, cap => writeE (enc .i8 v) cap k
  | .i16, .prim .i16 k, v, cap => writeE (enc .i16 v) cap k
  | .i32, .prim .i32 k, v, cap => writeE (enc .i32 v) cap k
  | .i64, .prim .i64 k, v, cap => writeE (enc .i64 v) cap k
  | .bool, .prim .bool k, v, cap => writeE (enc .bool v) cap k
  | .bytesN _, .copyN _ k, v, cap => writeE v cap k
  | .bytes _, .lenBytes oe max lenchk k, v, cap =>
    match encLenHead oe max lenchk v.length with
    | .error e => .err e
    | .ok false => .ok ([], cap, k)
    | .ok true => writeE (leBytes 4 v.length ++ v) cap k
  | .slice _ t, .lenLoop oe max lenchk body k, v, cap =>
    match encLenHead oe max lenchk v.length with
    | .error e => .err e
    | .ok false => .ok ([], cap, k)
    | .ok true =>
      match writeE (leBytes 4 v.length) cap k with
      | .err e => .err e | .panic s => .panic s | .unsupported => .unsupported
      | .ok (hd, cap1, _) =>
        match encLoop (fun x c => match runEnc t body x c with
            | .ok (w, c', .done) => .ok (w, c')
            | .ok _ => .unsupported
            | .err e => .err e | .panic s => .panic s | .unsupported => .unsupported) v cap1 [] with
        | .ok (w, cap2) => .ok (hd ++ w, cap2, k)
        | .err e => .err e | .panic s => .panic s | .unsupported => .unsupported
  | .unit, p, _, cap => .ok ([], cap, p)
  | .pair a b, p, (x, y), cap =>
    match runEnc a p x cap with
    | .err e => .err e | .panic s => .panic s | .unsupported => .unsupported
    | .ok (w1, cap1, p') =>
      match runEnc b p' y cap1 with
      | .err e => .err e | .panic s => .panic s | .unsupported => .unsupported
      | .ok (w2, cap2, p'') => .ok (w1 ++ w2, cap2, p'')
  | .omitempty t, p, v, cap => runEnc t p v cap
  | _, _, _, _ => .unsupported

/-- generated `encodeX`: `n := encodeSizeX(obj); buf := make([]byte, n); encodeXToBuffer(buf, obj); return buf`
— the result is the whole buffer, i.e. what was written followed by the bytes never written (zeros). -/
def runEncode (t : Ty) (g : GenCodec) (v : Val t) : PRes EncErr Bytes :=
  match runSizeOf t g.size v with
  | none => .unsupported
  | some n =>
    match runEnc t g.enc v n with
    | .ok (w, cap, .done) => .ok (w ++ List.replicate cap 0)
    | .ok _ => .unsupported
    | .err e => .err e | .panic s => .panic s | .unsupported => .unsupported

end Sky.Codec
