/-
  Sky.Codec.Schemas — the schemas of the skycoin types that have a generated codec (and the handful of
  message types without one), written by hand as a STABLE API for the other models.
  `Sky/Gen/Codecs.lean` (regenerated from the Go struct declarations and `enc:"…"` tags on every run of
  `./check C21`) re-proves `ty_<pkg>_<Type> = Schemas.<…>` for each of them, so a change to a Go struct
  or tag that is not mirrored here breaks the build of C21.

  `a ⊗ b ⊗ c` is the struct with fields a, b, c (right nested `Ty.pair`), so
  `Val Transaction = Nat × Nat × Bytes × List Bytes × List Bytes × List ((Nat × Bytes) × Nat × Nat)`.
-/
import Sky.Codec.Basic
namespace Sky.Codec

infixr:35 " ⊗ " => Ty.pair

namespace Schemas

/-! cipher -/
abbrev SHA256 : Ty := .bytesN 32
abbrev Sig : Ty := .bytesN 65
abbrev PubKey : Ty := .bytesN 33
abbrev Ripemd160 : Ty := .bytesN 20
/-- `cipher.Address{Version byte; Key Ripemd160}` -/
abbrev Address : Ty := .u8 ⊗ Ripemd160

/-! coin -/
/-- `coin.TransactionOutput{Address; Coins; Hours}` -/
abbrev TransactionOutput : Ty := Address ⊗ .u64 ⊗ .u64
/-- `coin.Transaction{Length u32; Type u8; InnerHash; Sigs; In; Out}` (each slice `maxlen=65535`) -/
abbrev Transaction : Ty :=
  .u32 ⊗ .u8 ⊗ SHA256 ⊗ .slice 65535 Sig ⊗ .slice 65535 SHA256 ⊗ .slice 65535 TransactionOutput
/-- `coin.transactionInputs{In}` — hashed (with `transactionOutputs`) into `InnerHash` -/
abbrev TransactionInputs : Ty := .slice 65535 SHA256
abbrev TransactionOutputs : Ty := .slice 65535 TransactionOutput
/-- `coin.BlockHeader{Version u32; Time; BkSeq; Fee; PrevHash; BodyHash; UxHash}` -/
abbrev BlockHeader : Ty := .u32 ⊗ .u64 ⊗ .u64 ⊗ .u64 ⊗ SHA256 ⊗ SHA256 ⊗ SHA256
/-- `coin.BlockBody{Transactions}` (`maxlen=65535`; elements are decoded with maxlen 0 … but their
own fields carry their own tags) -/
abbrev BlockBody : Ty := .slice 65535 Transaction
/-- `coin.Block{Head; Body}` -/
abbrev Block : Ty := BlockHeader ⊗ BlockBody
/-- `coin.SignedBlock{Block; Sig}` -/
abbrev SignedBlock : Ty := Block ⊗ Sig
/-- `coin.UxHead{Time; BkSeq}` -/
abbrev UxHead : Ty := .u64 ⊗ .u64
/-- `coin.UxBody{SrcTransaction; Address; Coins; Hours}` -/
abbrev UxBody : Ty := SHA256 ⊗ Address ⊗ .u64 ⊗ .u64
/-- `coin.UxOut{Head; Body}` -/
abbrev UxOut : Ty := UxHead ⊗ UxBody
/-- `coin.HashPair{Hash; PrevHash}` -/
abbrev HashPair : Ty := SHA256 ⊗ SHA256

/-! daemon messages -/
/-- `daemon.IPAddr{IP u32; Port u16}` -/
abbrev IPAddr : Ty := .u32 ⊗ .u16
/-- `IntroductionMessage{Mirror u32; ListenPort u16; ProtocolVersion i32; Extra []byte omitempty}` -/
abbrev IntroductionMessage : Ty := .u32 ⊗ .u16 ⊗ .i32 ⊗ .omitempty (.bytes 0)
/-- `GetPeersMessage{}`, `PingMessage{}`, `PongMessage{}`: no encoded field -/
abbrev GetPeersMessage : Ty := .unit
abbrev PingMessage : Ty := .unit
abbrev PongMessage : Ty := .unit
abbrev GivePeersMessage : Ty := .slice 512 IPAddr
/-- `DisconnectMessage{ReasonCode u16; Reserved []byte}` -/
abbrev DisconnectMessage : Ty := .u16 ⊗ .bytes 0
/-- `GetBlocksMessage{LastBlock; RequestedBlocks}` -/
abbrev GetBlocksMessage : Ty := .u64 ⊗ .u64
abbrev GiveBlocksMessage : Ty := .slice 128 SignedBlock
abbrev AnnounceBlocksMessage : Ty := .u64
abbrev AnnounceTxnsMessage : Ty := .slice 256 SHA256
abbrev GetTxnsMessage : Ty := .slice 256 SHA256
abbrev GiveTxnsMessage : Ty := .slice 256 Transaction

/-! visor / blockdb / historydb records -/
/-- `visor.UnconfirmedTransaction{Transaction; Received, Checked, Announced int64; IsValid int8}` -/
abbrev UnconfirmedTransaction : Ty := Transaction ⊗ .i64 ⊗ .i64 ⊗ .i64 ⊗ .i8
/-- `visor.UxArray{UxArray []coin.UxOut}` -/
abbrev UxArray : Ty := .slice 0 UxOut
abbrev HashesWrapper : Ty := .slice 0 SHA256
abbrev HashPairsWrapper : Ty := .slice 0 HashPair
abbrev SigWrapper : Ty := Sig
/-- `historydb.Transaction{Txn; BlockSeq}` -/
abbrev HistoryTransaction : Ty := Transaction ⊗ .u64
/-- `historydb.UxOut{Out; SpentTxnID; SpentBlockSeq}` -/
abbrev HistoryUxOut : Ty := UxOut ⊗ SHA256 ⊗ .u64

end Schemas
end Sky.Codec
