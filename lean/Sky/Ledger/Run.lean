/-
  Sky.Ledger.Run — histories: the fold of the ledger operations over arbitrary op lists, and the
  invariants that hold after EVERY finite history (accepted, rejected, duplicated, reordered ops).
-/
import Sky.Ledger.Supply
namespace Sky.Ledger
open Sky

inductive Op where
  | exec (b : Block)          -- Visor.ExecuteSignedBlock
  | injectF (t : Txn)         -- Visor.InjectForeignTransaction
  | injectU (t : Txn)         -- Visor.InjectUserTransaction
  | refresh                   -- Visor.RefreshUnconfirmed
  | removeInvalid             -- Visor.RemoveInvalidUnconfirmed
  | restart                   -- close; visor.New; Init
deriving Repr

/-- one DB transaction: a failing operation leaves the state as it was (bolt rollback) -/
def applyOp (s : State) : Op → State
  | .exec b => match execSigned s b with | .ok s' => s' | .error _ => s
  | .injectF t => match injectForeign s t with | .ok (_, _, s') => s' | .error _ => s
  | .injectU t => match injectUser s t with | .ok (_, s') => s' | .error _ => s
  | .refresh => (refresh s).2
  | .removeInvalid => (removeInvalid s).2
  | .restart => restart s

def run (s : State) (ops : List Op) : State := ops.foldl applyOp s

def Op.txns : Op → List Txn
  | .exec b => b.txns
  | .injectF t => [t]
  | .injectU t => [t]
  | _ => []

/-- pool operations never touch chain, unspent set, checksum, indexes, history or configuration -/
def SameLedger (s s' : State) : Prop :=
  s'.unspent = s.unspent ∧ s'.chain = s.chain ∧ s'.xor = s.xor ∧ s'.cfg = s.cfg ∧ s'.aidx = s.aidx ∧
    s'.aih = s.aih ∧ s'.hparsed = s.hparsed ∧ s'.houts = s.houts ∧ s'.htxns = s.htxns ∧
    s'.haddrUx = s.haddrUx ∧ s'.haddrTxns = s.haddrTxns

theorem SameLedger.refl (s : State) : SameLedger s s := ⟨rfl, rfl, rfl, rfl, rfl, rfl, rfl, rfl, rfl, rfl, rfl⟩

theorem injectWith_same {s s' : State} {t : Txn} {p : VParams} {k : Bool} {e : Option String}
    (h : injectWith s t p = .ok (k, e, s')) : SameLedger s s' := by
  unfold injectWith at h
  simp only at h
  split at h
  · cases h
  · split at h <;> (cases h; exact SameLedger.refl _)

theorem injectForeign_same {s s' : State} {t : Txn} {k : Bool} {e : Option String}
    (h : injectForeign s t = .ok (k, e, s')) : SameLedger s s' := injectWith_same h

theorem injectUser_same {s s' : State} {t : Txn} {k : Bool}
    (h : injectUser s t = .ok (k, s')) : SameLedger s s' := by
  unfold injectUser at h
  simp only [bind, Except.bind] at h
  split at h
  · cases h
  · split at h
    · cases h
    · split at h
      · cases h
      · rename_i v hv
        obtain ⟨k', e', s''⟩ := v
        cases h
        exact injectWith_same hv

theorem refresh_same (s : State) : SameLedger s (refresh s).2 := by
  unfold refresh; exact SameLedger.refl _

theorem removeInvalid_same (s : State) : SameLedger s (removeInvalid s).2 := by
  unfold removeInvalid; exact SameLedger.refl _

/-- every operation other than an accepted block leaves the ledger part unchanged -/
theorem applyOp_same_or_exec (s : State) (op : Op) :
    SameLedger s (applyOp s op) ∨ ∃ b, op = .exec b ∧ execSigned s b = .ok (applyOp s op) := by
  cases op with
  | exec b =>
    simp only [applyOp]
    split
    · rename_i s' h; right; exact ⟨b, rfl, h⟩
    · left; exact SameLedger.refl _
  | injectF t =>
    left; simp only [applyOp]
    split
    · rename_i k e s' h; exact injectForeign_same h
    · exact SameLedger.refl _
  | injectU t =>
    left; simp only [applyOp]
    split
    · rename_i k s' h; exact injectUser_same h
    · exact SameLedger.refl _
  | refresh => left; exact refresh_same s
  | removeInvalid => left; exact removeInvalid_same s
  | restart => left; exact removeInvalid_same s

theorem exec_chain {s s' : State} {b : Block} (h : execSigned s b = .ok s') :
    s'.chain = s.chain ++ [b] ∧ s'.cfg = s.cfg := by
  obtain ⟨_, _, _, s1, _, _, hc, _, hcfg, _⟩ := execSigned_ok h
  exact ⟨hc, hcfg⟩

/-- the general induction principle over histories used by the property theorems:
    a predicate preserved by accepted blocks and insensitive to the pool holds after every history -/
theorem run_induction (P : State → Prop) (hops : List Op) (Q : Op → Prop)
    (hsame : ∀ s s', SameLedger s s' → P s → P s')
    (hexec : ∀ s s' b, P s → Q (.exec b) → execSigned s b = .ok s' → P s')
    (s : State) (hP : P s) (hQ : ∀ op ∈ hops, Q op) : P (run s hops) := by
  induction hops generalizing s with
  | nil => exact hP
  | cons op ops ih =>
    simp only [run, List.foldl_cons]
    apply ih
    · rcases applyOp_same_or_exec s op with hs | ⟨b, hb, he⟩
      · exact hsame _ _ hs hP
      · subst hb; exact hexec _ _ _ hP (hQ _ (by simp)) he
    · intro o ho; exact hQ o (by simp [ho])

/-- the state a node (arbitrating or not) is in after any history keeps: a genesis block at the front of a
    non-empty chain, the configuration, unique unspent ids and the coin supply -/
def Good (G : Nat) (g : Block) (cfg : Cfg) (s : State) : Prop :=
  s.chain.head? = some g ∧ s.cfg = cfg ∧ Inv s G

/-- what the theorems assume about the transactions an operation carries: the well-formedness verdict
supplied for each is sound w.r.t. the duplicate-input rule (C09), and within one block distinct
transactions have distinct hashes (collision freeness of SHA-256 on that finite set) -/
def OpOK (op : Op) : Prop := (∀ t ∈ op.txns, WfSound t) ∧ HashInj op.txns

theorem good_run {G : Nat} {g : Block} {cfg : Cfg} (s : State) (ops : List Op)
    (h0 : Good G g cfg s) (hwf : ∀ op ∈ ops, OpOK op) : Good G g cfg (run s ops) := by
  apply run_induction (Good G g cfg) ops OpOK
  · intro s s' hs hg
    obtain ⟨h1, h2, h3, h4⟩ := hg
    obtain ⟨a1, a2, _, a4, _⟩ := hs
    exact ⟨by rw [a2]; exact h1, by rw [a4]; exact h2, by unfold Inv; rw [a1]; exact ⟨h3, h4⟩⟩
  · intro s s' b hg hq he
    obtain ⟨h1, h2, h3⟩ := hg
    obtain ⟨c1, c2⟩ := exec_chain he
    refine ⟨?_, by rw [c2]; exact h2, ?_⟩
    · rw [c1]
      cases hc : s.chain with
      | nil => rw [hc] at h1; cases h1
      | cons a l => rw [hc] at h1; simpa using h1
    · exact exec_preserves_inv hq.2 h1 h3 hq.1 he
  · exact h0
  · exact hwf

end Sky.Ledger
