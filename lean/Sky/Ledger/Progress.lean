/-
  Sky.Ledger.Progress — the storage steps of block execution cannot fail on a block that passed the checks:
  `Unspents.ProcessBlock` (unspent set, checksum, the two address-index passes with their consistency guards) and
  `HistoryDB.ParseBlock` succeed whenever the state satisfies the invariants that every history maintains.
  Together with `Accept.lean` this gives: a block the publisher creates is EXECUTED by an independent node
  holding the same chain (C05), and "accepted ⇔ the listed conditions" for C04.
-/
import Sky.Ledger.AddrIndex
import Sky.Ledger.Accept
namespace Sky.Ledger
open Sky

/-! ### list facts -/

theorem hasDup_false_of_nodup {l : List Id} (h : l.Nodup) : hasDup l = false := by
  induction l with
  | nil => rfl
  | cons x xs ih =>
    simp only [List.nodup_cons] at h
    simp only [hasDup, ih h.2, Bool.or_false]
    simpa using h.1

/-- removing a duplicate-free sub-collection: lengths subtract -/
theorem filter_not_mem_length : ∀ (l r : List Id), l.Nodup → r.Nodup → (∀ x ∈ r, x ∈ l) →
    (l.filter (fun h => !r.contains h)).length + r.length = l.length := by
  intro l
  induction l with
  | nil =>
    intro r _ _ hs
    cases r with
    | nil => rfl
    | cons y ys => exact absurd (hs y (by simp)) (by simp)
  | cons x xs ih =>
    intro r hl hr hs
    simp only [List.nodup_cons] at hl
    by_cases hx : x ∈ r
    · have hc : r.contains x = true := by simpa using hx
      simp only [List.filter_cons, hc, Bool.not_true, Bool.false_eq_true, if_false]
      have hr' : (r.erase x).Nodup := hr.erase x
      have hs' : ∀ y ∈ r.erase x, y ∈ xs := by
        intro y hy
        have hy' := List.mem_of_mem_erase hy
        have hne : y ≠ x := by
          intro e; subst e
          exact (List.Nodup.not_mem_erase hr) hy
        rcases List.mem_cons.mp (hs y hy') with e | h
        · exact absurd e hne
        · exact h
      have hf : xs.filter (fun h => !r.contains h) = xs.filter (fun h => !(r.erase x).contains h) := by
        apply List.filter_congr
        intro y hy
        have hne : y ≠ x := fun e => hl.1 (e ▸ hy)
        have : (y ∈ r.erase x) ↔ y ∈ r := by
          constructor
          · exact List.mem_of_mem_erase
          · intro h; exact (List.mem_erase_of_ne hne).mpr h
        by_cases hyr : y ∈ r
        · simp [hyr, this.mpr hyr]
        · have : y ∉ r.erase x := fun h => hyr (this.mp h)
          simp [hyr, this]
      have := ih (r.erase x) hl.2 hr' hs'
      rw [hf]
      have hlen : (r.erase x).length = r.length - 1 := List.length_erase_of_mem hx
      have hpos : 0 < r.length := List.length_pos_of_mem hx
      simp only [List.length_cons]
      omega
    · have hc : r.contains x = false := by simpa using hx
      simp only [List.filter_cons, hc, Bool.not_false, if_true, List.length_cons]
      have hs' : ∀ y ∈ r, y ∈ xs := by
        intro y hy
        rcases List.mem_cons.mp (hs y hy) with e | h
        · exact absurd (e ▸ hy) hx
        · exact h
      have := ih r hl.2 hr hs'
      omega

/-! ### the add loop -/

theorem addIds_ok (rm : List Id) : ∀ (add acc : List Id), add.Nodup → (∀ x ∈ add, x ∉ rm ∧ x ∉ acc) →
    addIds rm add acc = .ok (acc ++ add) := by
  intro add
  induction add with
  | nil => intro acc _ _; simp [addIds]
  | cons h rest ih =>
    intro acc hn hf
    simp only [List.nodup_cons] at hn
    obtain ⟨f1, f2⟩ := hf h (by simp)
    have c1 : rm.contains h = false := by simpa using f1
    have c2 : acc.contains h = false := by simpa using f2
    simp only [addIds, c1, c2, Bool.false_eq_true, if_false]
    rw [ih (acc ++ [h]) hn.2 (by
      intro x hx
      obtain ⟨g1, g2⟩ := hf x (by simp [hx])
      refine ⟨g1, ?_⟩
      simp only [List.mem_append, List.mem_singleton, not_or]
      exact ⟨g2, fun e => hn.1 (e ▸ hx)⟩)]
    simp

theorem addIds_nodup {rm add acc new : List Id} (h : addIds rm add acc = .ok new) (ha : acc.Nodup) : new.Nodup := by
  induction add generalizing acc with
  | nil => simp [addIds] at h; subst h; exact ha
  | cons x xs ih =>
    simp only [addIds] at h
    split at h
    · cases h
    · split at h
      · cases h
      · rename_i h1 h2
        apply ih h
        rw [List.nodup_append]
        refine ⟨ha, by simp, ?_⟩
        intro a ha' b hb hab
        simp only [List.mem_singleton] at hb
        subst hb; subst hab
        have : acc.contains a = false := by simpa using h2
        simp at this
        exact this ha'

/-! ### poolAddrIndex.adjust -/

/-- `adjust` succeeds when the removed ids are distinct and all indexed under the address, the added ids are
distinct, not among the removed ones and not yet indexed, and the stored list has no duplicates -/
theorem aidxAdjust_ok (ai : List (Addr × List Id)) (a : Addr) (add rm : List Id)
    (hex : (aidxGet ai a).Nodup) (hrm : rm.Nodup) (hsub : ∀ x ∈ rm, x ∈ aidxGet ai a)
    (hadd : add.Nodup) (hd1 : ∀ x ∈ add, x ∉ rm) (hd2 : ∀ x ∈ add, x ∉ aidxGet ai a) :
    ∃ ai', aidxAdjust ai a add rm = .ok ai' := by
  unfold aidxAdjust
  split
  · exact ⟨ai, rfl⟩
  · have hlen := filter_not_mem_length (aidxGet ai a) rm hex hrm hsub
    simp only [hasDup_false_of_nodup hrm, Bool.false_eq_true, if_false]
    have h1 : ¬ (aidxGet ai a).length < rm.length := by omega
    simp only [h1, if_false]
    have h2 : ((aidxGet ai a).length - (List.filter (fun h => !rm.contains h) (aidxGet ai a)).length != rm.length) = false := by
      simp only [bne_eq_false_iff_eq]; omega
    simp only [h2, Bool.false_eq_true, if_false]
    rw [addIds_ok rm add _ hadd (by
      intro x hx
      refine ⟨hd1 x hx, ?_⟩
      intro hm
      exact hd2 x hx (List.mem_filter.mp hm).1)]
    exact ⟨_, rfl⟩

/-- a successful `adjust` keeps every stored list duplicate-free -/
theorem aidxAdjust_nodup {ai ai' : List (Addr × List Id)} {a : Addr} {add rm : List Id}
    (h : aidxAdjust ai a add rm = .ok ai') (hn : ∀ b, (aidxGet ai b).Nodup) : ∀ b, (aidxGet ai' b).Nodup := by
  unfold aidxAdjust at h
  split at h
  · cases h; exact hn
  · simp only at h
    split at h
    · cases h
    · split at h
      · cases h
      · split at h
        · cases h
        · split at h
          · cases h
          · rename_i new hnew
            cases h
            intro b
            rw [aidxGet_set]
            split
            · exact addIds_nodup hnew ((hn a).filter _)
            · exact hn b

theorem aidxPass_nodup {created spent : List Ux} {addrs : List Addr} {ai ai' : List (Addr × List Id)}
    (h : aidxPass created spent addrs ai = .ok ai') (hn : ∀ b, (aidxGet ai b).Nodup) :
    ∀ b, (aidxGet ai' b).Nodup := by
  induction addrs generalizing ai with
  | nil => simp [aidxPass] at h; subst h; exact hn
  | cons a rest ih =>
    simp only [aidxPass] at h
    split at h
    · cases h
    · rename_i ai1 h1
      exact ih h (aidxAdjust_nodup h1 hn)

/-- the per-address preconditions of one pass -/
def PassPre (created spent : List Ux) (ai : List (Addr × List Id)) (a : Addr) : Prop :=
  (aidxGet ai a).Nodup ∧ (idsOfAddr spent a).Nodup ∧ (∀ x ∈ idsOfAddr spent a, x ∈ aidxGet ai a) ∧
    (idsOfAddr created a).Nodup ∧ (∀ x ∈ idsOfAddr created a, x ∉ idsOfAddr spent a) ∧
    (∀ x ∈ idsOfAddr created a, x ∉ aidxGet ai a)

theorem aidxPass_ok (created spent : List Ux) (addrs : List Addr) (ai : List (Addr × List Id))
    (hnd : addrs.Nodup) (H : ∀ a ∈ addrs, PassPre created spent ai a) :
    ∃ ai', aidxPass created spent addrs ai = .ok ai' := by
  induction addrs generalizing ai with
  | nil => exact ⟨ai, rfl⟩
  | cons a rest ih =>
    simp only [List.nodup_cons] at hnd
    obtain ⟨p1, p2, p3, p4, p5, p6⟩ := H a (by simp)
    obtain ⟨ai1, h1⟩ := aidxAdjust_ok ai a (idsOfAddr created a) (idsOfAddr spent a) p1 p2 p3 p4 p5 p6
    have h1' : aidxAdjust ai a ((created.filter (·.addr == a)).map (·.id)) ((spent.filter (·.addr == a)).map (·.id))
        = .ok ai1 := h1
    simp only [aidxPass, h1']
    apply ih ai1 hnd.2
    intro b hb
    have hne : b ≠ a := fun e => hnd.1 (e ▸ hb)
    have hg := (aidxAdjust_get h1).1 b hne
    unfold PassPre
    rw [hg]
    exact H b (by simp [hb])

/-! ### Unspents.ProcessBlock cannot fail on a checked block -/

theorem idsOfAddr_sublist (us : List Ux) (a : Addr) : (idsOfAddr us a).Sublist (us.map (·.id)) := by
  unfold idsOfAddr
  exact (List.filter_sublist).map _

/-- the preconditions of both index passes follow from the block facts and the index invariant -/
theorem passPre_of_facts {s : State} {created spent : List Ux}
    (hsm : ∀ u ∈ spent, u ∈ s.unspent) (hsn : (spent.map (·.id)).Nodup)
    (hcn : (created.map (·.id)).Nodup) (hfresh : ∀ u ∈ created, u.id ∉ s.unspent.map (·.id))
    (hai : AidxOK s) (hain : ∀ a, (aidxGet s.aidx a).Nodup) (a : Addr) :
    PassPre created spent s.aidx a := by
  refine ⟨hain a, hsn.sublist (idsOfAddr_sublist spent a), ?_, hcn.sublist (idsOfAddr_sublist created a), ?_, ?_⟩
  · intro x hx
    obtain ⟨u, hu, hua, hux⟩ := mem_idsOfAddr.mp hx
    exact (hai a x).mpr (mem_idsOfAddr.mpr ⟨u, hsm u hu, hua, hux⟩)
  · intro x hx hx2
    obtain ⟨u, hu, _, hux⟩ := mem_idsOfAddr.mp hx
    obtain ⟨v, hv, _, hvx⟩ := mem_idsOfAddr.mp hx2
    apply hfresh u hu
    rw [hux, ← hvx]
    exact List.mem_map.mpr ⟨v, hsm v hv, rfl⟩
  · intro x hx hx2
    obtain ⟨u, hu, _, hux⟩ := mem_idsOfAddr.mp hx
    obtain ⟨v, hv, _, hvx⟩ := mem_idsOfAddr.mp ((hai a x).mp hx2)
    apply hfresh u hu
    rw [hux, ← hvx]
    exact List.mem_map.mpr ⟨v, hv, rfl⟩

theorem unspentProcessBlock_succeeds {s : State} {b : Block} {spent : List Ux}
    (hsp : getArray s.unspent (blockInputs b) = .ok spent) (hins : (blockInputs b).Nodup)
    (hcn : ((blockCreated b).map (·.id)).Nodup)
    (hfresh : ∀ u ∈ blockCreated b, u.id ∉ s.unspent.map (·.id))
    (hai : AidxOK s) (hain : ∀ a, (aidxGet s.aidx a).Nodup)
    (h0 : b.seq = 0 → s.aih = none) (h1 : b.seq ≠ 0 → s.aih.map (· + 1) = some b.seq) :
    ∃ s1, unspentProcessBlock s b = .ok s1 := by
  obtain ⟨hids, hmem⟩ := getArray_ok hsp
  have hsn : (spent.map (·.id)).Nodup := by rw [hids]; exact hins
  -- pass 1
  obtain ⟨ai1, hp1⟩ := aidxPass_ok (blockCreated b) spent (addrsOf spent) s.aidx (addrsOf_nodup _)
    (fun a _ => passPre_of_facts hmem hsn hcn hfresh hai hain a)
  -- pass 2: addresses that only receive
  obtain ⟨g1, _⟩ := aidxPass_get hp1 (addrsOf_nodup _)
  have hn2 : ((addrsOf (blockCreated b)).filter (fun a => !(addrsOf spent).contains a)).Nodup :=
    (List.filter_sublist).nodup (addrsOf_nodup _)
  obtain ⟨ai2, hp2⟩ := aidxPass_ok (blockCreated b) spent _ ai1 hn2 (by
    intro a ha
    have hna : a ∉ addrsOf spent := by
      have := (List.mem_filter.mp ha).2
      simpa using this
    have := passPre_of_facts hmem hsn hcn hfresh hai hain a
    unfold PassPre at this ⊢
    rw [g1 a hna]
    exact this)
  -- the "inserted twice" guard
  have htw : ((blockCreated b).any fun u => contains (keptPool s b) u.id) = false := by
    rw [List.any_eq_false]
    intro u hu
    have hf := hfresh u hu
    have : contains (keptPool s b) u.id = false := by
      rw [contains_false_iff]
      intro hm
      apply hf
      obtain ⟨v, hv, hvi⟩ := List.mem_map.mp hm
      exact List.mem_map.mpr ⟨v, (List.mem_filter.mp hv).1, hvi⟩
    simp [this]
  unfold unspentProcessBlock
  have hsp' : getArray s.unspent (List.flatMap (fun x => x.ins) b.txns) = .ok spent := hsp
  have htw' : (List.any (List.flatMap (createUnspents b.time b.seq) b.txns) fun u =>
      contains (List.filter (fun u => !(List.flatMap (fun x => x.ins) b.txns).contains u.id) s.unspent) u.id) = false := htw
  have hp1' : aidxPass (List.flatMap (createUnspents b.time b.seq) b.txns) spent (addrsOf spent) s.aidx = .ok ai1 := hp1
  have hp2' : aidxPass (List.flatMap (createUnspents b.time b.seq) b.txns) spent
      (List.filter (fun a => !(addrsOf spent).contains a) (addrsOf (List.flatMap (createUnspents b.time b.seq) b.txns))) ai1
      = .ok ai2 := hp2
  simp only [bind, Except.bind, hsp', htw', Bool.false_eq_true, if_false, hp1', hp2']
  by_cases hz : b.seq = 0
  · have := h0 hz
    simp [hz, this]
  · have := h1 hz
    have hz' : (b.seq == 0) = false := by simpa using hz
    simp only [hz', Bool.false_eq_true, if_false, this, bne_self_eq_false]
    exact ⟨_, rfl⟩

/-! ### HistoryDB.ParseBlock cannot fail while the history knows every unspent output -/

def idsH (s : State) : List Id := s.houts.map (·.id)

/-- every unspent output has its record in the history -/
def HistHas (s : State) : Prop := ∀ u ∈ s.unspent, u.id ∈ idsH s

/-- a fold whose every step succeeds on known ids and keeps the id list never fails -/
theorem foldlM_step_ok {β : Type} (f : List HistOut × β → Id → R (List HistOut × β))
    (hstep : ∀ acc i, i ∈ acc.1.map (·.id) → ∃ acc', f acc i = .ok acc' ∧ acc'.1.map (·.id) = acc.1.map (·.id)) :
    ∀ (ins : List Id) (init : List HistOut × β), (∀ i ∈ ins, i ∈ init.1.map (·.id)) →
      ∃ r, ins.foldlM f init = .ok r ∧ r.1.map (·.id) = init.1.map (·.id) := by
  intro ins
  induction ins with
  | nil => intro init _; exact ⟨init, rfl, rfl⟩
  | cons i rest ih =>
    intro init hall
    obtain ⟨acc', h1, h2⟩ := hstep init i (hall i (by simp))
    obtain ⟨r, h3, h4⟩ := ih acc' (by intro j hj; rw [h2]; exact hall j (by simp [hj]))
    refine ⟨r, ?_, by rw [h4, h2]⟩
    simp only [List.foldlM_cons, bind, Except.bind, h1]
    exact h3

theorem foldl_addOut_ids (created : List Ux) : ∀ (houts : List HistOut) (x : Id),
    x ∈ (created.foldl (fun acc u =>
        (acc.filter (·.id != u.id)) ++ [({ id := u.id, addr := u.addr, coins := u.coins, spent := none } : HistOut)]) houts).map (·.id)
      ↔ x ∈ houts.map (·.id) ∨ x ∈ created.map (·.id) := by
  induction created with
  | nil => intro houts x; simp
  | cons u rest ih =>
    intro houts x
    simp only [List.foldl_cons]
    rw [ih]
    simp only [List.map_append, List.map_cons, List.map_nil, List.mem_append, List.mem_map,
      List.mem_filter, List.mem_cons, List.not_mem_nil, or_false]
    constructor
    · rintro ((⟨o, ⟨ho, _⟩, hox⟩ | h) | h)
      · left; exact ⟨o, ho, hox⟩
      · right; left; exact h
      · right; right; exact h
    · rintro (⟨o, ho, hox⟩ | h | h)
      · by_cases hx : x = u.id
        · left; right; exact hx
        · left; left
          refine ⟨o, ⟨ho, ?_⟩, hox⟩
          simp only [bne_iff_ne, ne_eq]
          rw [hox]; exact hx
      · left; right; exact h
      · right; exact h

theorem foldlM_step_res {β : Type} {f : List HistOut × β → Id → R (List HistOut × β)} {ins : List Id}
    {init : List HistOut × β} {res : R (List HistOut × β)} (heq : ins.foldlM f init = res)
    (hstep : ∀ acc i, i ∈ acc.1.map (·.id) → ∃ acc', f acc i = .ok acc' ∧ acc'.1.map (·.id) = acc.1.map (·.id))
    (hall : ∀ i ∈ ins, i ∈ init.1.map (·.id)) :
    ∃ r, res = .ok r ∧ r.1.map (·.id) = init.1.map (·.id) := by
  obtain ⟨r, h1, h2⟩ := foldlM_step_ok f hstep ins init hall
  exact ⟨r, by rw [← heq, h1], h2⟩

theorem parseTxn_ok' {s : State} {t : Txn} (seq : Nat) (created : List Ux)
    (hins : ∀ i ∈ t.ins, i ∈ idsH s) :
    ∃ s', parseTxn seq created s t = .ok s' ∧ (∀ x, x ∈ idsH s' ↔ x ∈ idsH s ∨ x ∈ created.map (·.id)) ∧
      s'.unspent = s.unspent := by
  unfold parseTxn
  simp only [bind, Except.bind]
  split
  · rename_i e heq
    exfalso
    obtain ⟨r, hr, _⟩ := foldlM_step_res heq (by
      intro acc i hi
      split
      · rename_i hnone
        exfalso
        rw [List.find?_eq_none] at hnone
        obtain ⟨o, ho, hoi⟩ := List.mem_map.mp hi
        exact hnone o ho (by simpa using hoi)
      · refine ⟨_, rfl, ?_⟩
        simp only [List.map_map]
        apply List.map_congr_left
        intro x _
        simp only [Function.comp]
        split <;> rfl) hins
    cases hr
  · rename_i r heq
    obtain ⟨houts, hat⟩ := r
    obtain ⟨r', hr', hids⟩ := foldlM_step_res heq (by
      intro acc i hi
      split
      · rename_i hnone
        exfalso
        rw [List.find?_eq_none] at hnone
        obtain ⟨o, ho, hoi⟩ := List.mem_map.mp hi
        exact hnone o ho (by simpa using hoi)
      · refine ⟨_, rfl, ?_⟩
        simp only [List.map_map]
        apply List.map_congr_left
        intro x _
        simp only [Function.comp]
        split <;> rfl) hins
    cases hr'
    refine ⟨_, rfl, ?_, rfl⟩
    intro x
    unfold idsH
    simp only []
    rw [foldl_addOut_ids, hids]

theorem foldlM_parseTxn_ok (seq time : Nat) : ∀ (txns : List Txn) (s : State),
    (∀ t ∈ txns, ∀ i ∈ t.ins, i ∈ idsH s) →
    ∃ s', txns.foldlM (fun st t => parseTxn seq (createUnspents time seq t) st t) s = .ok s' ∧
      (∀ x, x ∈ idsH s → x ∈ idsH s') ∧
      (∀ t ∈ txns, ∀ u ∈ createUnspents time seq t, u.id ∈ idsH s') ∧ s'.unspent = s.unspent := by
  intro txns
  induction txns with
  | nil => intro s _; exact ⟨s, rfl, fun _ h => h, by simp, rfl⟩
  | cons t rest ih =>
    intro s hall
    obtain ⟨s1, h1, g1, u1⟩ := parseTxn_ok' (s := s) (t := t) seq (createUnspents time seq t) (hall t (by simp))
    obtain ⟨s2, h2, g2, c2, u2⟩ := ih s1 (by
      intro t' ht' i hi
      exact (g1 i).mpr (Or.inl (hall t' (by simp [ht']) i hi)))
    refine ⟨s2, ?_, ?_, ?_, by rw [u2, u1]⟩
    · simp only [List.foldlM_cons, bind, Except.bind, h1]; exact h2
    · intro x hx; exact g2 x ((g1 x).mpr (Or.inl hx))
    · intro t' ht' u hu
      simp only [List.mem_cons] at ht'
      rcases ht' with rfl | ht'
      · exact g2 _ ((g1 _).mpr (Or.inr (List.mem_map.mpr ⟨u, hu, rfl⟩)))
      · exact c2 t' ht' u hu

theorem parseBlock_succeeds {s : State} {b : Block} (hins : ∀ i ∈ blockInputs b, i ∈ idsH s) :
    ∃ s', parseBlock s b = .ok s' ∧ (∀ x, x ∈ idsH s → x ∈ idsH s') ∧
      (∀ u ∈ blockCreated b, u.id ∈ idsH s') ∧ s'.unspent = s.unspent := by
  obtain ⟨s1, h1, g1, c1, u1⟩ := foldlM_parseTxn_ok b.seq b.time b.txns s (by
    intro t ht i hi
    apply hins
    unfold blockInputs
    exact List.mem_flatMap.mpr ⟨t, ht, hi⟩)
  unfold parseBlock
  simp only [bind, Except.bind, h1]
  refine ⟨_, rfl, g1, ?_, u1⟩
  intro u hu
  unfold blockCreated at hu
  obtain ⟨t, ht, hut⟩ := List.mem_flatMap.mp hu
  exact c1 t ht u hut

/-! ### the whole of executeSignedBlock -/

/-- the invariants the storage steps rely on; every history maintains them (`strong_after_run`) -/
structure Strong (s : State) : Prop where
  nodupIds : (s.unspent.map (·.id)).Nodup
  aidxOK : AidxOK s
  aidxNodup : ∀ a, (aidxGet s.aidx a).Nodup
  histHas : HistHas s
  aih : s.aih = (s.chain.getLast?).map (·.seq)

/-- **progress**: a signed block that passed `Blockchain.processBlock`, whose header hash is new to the block
store and whose parent reference is not the null hash, is executed — none of the storage steps
(`Unspents.ProcessBlock` with its index guards, the pool purge, `HistoryDB.ParseBlock`) can fail -/
theorem execSigned_succeeds {s : State} {b g last : Block} (hst : Strong s) (hwf : ∀ t ∈ b.txns, WfSound t)
    (hg : s.chain.head? = some g) (hl : s.chain.getLast? = some last)
    (hsig : b.sig = true) (hpb : processBlock s b = .ok ())
    (hnew : (s.chain.any (·.hh == b.hh)) = false) (hprev : (b.prev == "0000000000000000") = false)
    (hinj : HashInj b.txns) :
    ∃ s', execSigned s b = .ok s' := by
  obtain ⟨_, hvh, ⟨txns, hpt, hsame⟩, _⟩ := processBlock_ok hg hpb
  obtain ⟨hv, hp, hn, hf⟩ := processTransactions_facts hpt
  have heq : txns = b.txns := same_of_sameTxns hinj (fun t ht => (hv t ht).1) hsame
  subst heq
  -- inputs exist
  have hbal : ∀ t ∈ b.txns, ∃ uxIn, getArray s.unspent t.ins = .ok uxIn ∧ coinsOfUx uxIn = coinsOfOuts t.outs := by
    intro t ht
    obtain ⟨uxIn, a1, _, a3, _⟩ := verifyBlockTxn_ok (hv t ht).2
    exact ⟨uxIn, a1, a3⟩
  obtain ⟨spent, hsp, _⟩ := getArray_block hbal
  have hins : (blockInputs b).Nodup := by
    apply nodup_block_inputs _ hp
    intro t ht
    obtain ⟨_, _, hwfok, _, _⟩ := verifyBlockTxn_ok (hv t ht).2
    exact hwf t ht hwfok
  have hcn : ((blockCreated b).map (·.id)).Nodup := by
    unfold blockCreated; rw [created_ids]; exact hn
  have hfresh : ∀ u ∈ blockCreated b, u.id ∉ s.unspent.map (·.id) := by
    intro u hu
    apply contains_false_iff.mp
    apply hf
    have : u.id ∈ (blockCreated b).map (·.id) := List.mem_map.mpr ⟨u, hu, rfl⟩
    unfold blockCreated at this; rw [created_ids] at this; exact this
  -- header: seq = head + 1
  obtain ⟨head, hhd, hseq, _⟩ := verifyBlockHeader_ok hvh
  have hhl : head = last := by rw [hl] at hhd; cases hhd; rfl
  subst hhl
  have hs0 : b.seq ≠ 0 := by omega
  obtain ⟨s1, hs1⟩ := unspentProcessBlock_succeeds (s := s) (b := b) hsp hins hcn hfresh hst.aidxOK hst.aidxNodup
    (fun h => absurd h hs0) (fun _ => by rw [hst.aih, hl]; simp [hseq])
  obtain ⟨_, _, hun, hch, _, hpool, _, _, hho, _⟩ := unspentProcessBlock_ok hs1
  -- history knows every input
  obtain ⟨hids, hmem⟩ := getArray_ok hsp
  obtain ⟨s2, hs2, _⟩ := parseBlock_succeeds
    (s := { s1 with chain := s1.chain ++ [b],
                    pool := s1.pool.filter (fun e => !(b.txns.map (·.hash)).contains e.txn.hash) }) (b := b) (by
      intro i hi
      unfold idsH
      simp only []
      rw [hho]
      have hi' : i ∈ spent.map (·.id) := by rw [hids]; exact hi
      obtain ⟨u, hu, hui⟩ := List.mem_map.mp hi'
      rw [← hui]
      exact hst.histHas u (hmem u hu))
  refine ⟨s2, ?_⟩
  unfold execSigned
  have hs0' : (decide (b.seq > 0) && (b.prev == "0000000000000000")) = false := by simp [hprev]
  simp only [bind, Except.bind, hsig, Bool.not_true, Bool.false_eq_true, if_false, hpb, hnew, hs0', hs1]
  exact hs2

/-! ### every history maintains `Strong` -/

theorem execSigned_parse {s s' : State} {b : Block} (h : execSigned s b = .ok s') :
    ∃ s1, unspentProcessBlock s b = .ok s1 ∧
      parseBlock { s1 with chain := s1.chain ++ [b],
                           pool := s1.pool.filter (fun e => !(b.txns.map (·.hash)).contains e.txn.hash) } b = .ok s' := by
  unfold execSigned at h
  simp only [bind, Except.bind] at h
  split at h
  · cases h
  · split at h
    · cases h
    · split at h
      · cases h
      · split at h
        · cases h
        · split at h
          · cases h
          · rename_i s1 hs1
            exact ⟨s1, hs1, h⟩

theorem exec_preserves_strong {s s' : State} {b g : Block} (hst : Strong s) (hwf : ∀ t ∈ b.txns, WfSound t)
    (hinj : HashInj b.txns) (hg : s.chain.head? = some g) (h : execSigned s b = .ok s') : Strong s' := by
  obtain ⟨s1, hs1, hpb⟩ := execSigned_parse h
  obtain ⟨_, _, _, s1', hs1', hu, hc, _, _, hidx, haih, _⟩ := execSigned_ok h
  have e1 : s1' = s1 := by rw [hs1] at hs1'; cases hs1'; rfl
  rw [e1] at hu hidx haih
  obtain ⟨⟨spent, hsp, _⟩, _, hun, _, _, _, h7, _, hho, _⟩ := unspentProcessBlock_ok hs1
  obtain ⟨hids, hmem⟩ := getArray_ok hsp
  have hinv : Inv s' (coinsOfUx s.unspent) := exec_preserves_inv hinj hg ⟨hst.nodupIds, rfl⟩ hwf h
  refine ⟨hinv.1, exec_preserves_aidx hst.nodupIds hst.aidxOK h, ?_, ?_, ?_⟩
  · obtain ⟨sp, ai1, _, p1, p2⟩ := unspentProcessBlock_aidx hs1
    rw [hidx]
    exact aidxPass_nodup p2 (aidxPass_nodup p1 hst.aidxNodup)
  · -- the history knows every unspent output of the new state
    obtain ⟨s2, hs2, g1, c1, _⟩ := parseBlock_succeeds
      (s := { s1 with chain := s1.chain ++ [b],
                      pool := s1.pool.filter (fun e => !(b.txns.map (·.hash)).contains e.txn.hash) }) (b := b) (by
        intro i hi
        unfold idsH
        simp only []
        rw [hho]
        have hi' : i ∈ spent.map (·.id) := by rw [hids]; exact hi
        obtain ⟨u, hu', hui⟩ := List.mem_map.mp hi'
        rw [← hui]
        exact hst.histHas u (hmem u hu'))
    have e2 : s2 = s' := by rw [hpb] at hs2; cases hs2; rfl
    rw [e2] at g1 c1
    intro u hu'
    rw [hu, hun] at hu'
    rcases List.mem_append.mp hu' with hk | hcr
    · apply g1
      unfold idsH
      simp only []
      rw [hho]
      exact hst.histHas u (List.mem_filter.mp hk).1
    · exact c1 u hcr
  · rw [haih, h7, hc]; simp

theorem same_preserves_strong {s s' : State} (hs : SameLedger s s') (hst : Strong s) : Strong s' := by
  obtain ⟨a1, a2, a3, a4, a5, a6, a7, a8, a9, a10, a11⟩ := hs
  refine ⟨by rw [a1]; exact hst.nodupIds, ?_, by rw [a5]; exact hst.aidxNodup, ?_, by rw [a6, a2]; exact hst.aih⟩
  · intro a id; rw [a5, a1]; exact hst.aidxOK a id
  · intro u hu; unfold idsH; rw [a8]; rw [a1] at hu; exact hst.histHas u hu

/-- after EVERY history the storage invariants hold -/
theorem strong_after_run {G : Nat} {g : Block} {cfg : Cfg} (s0 : State) (ops : List Op)
    (h0 : Good G g cfg s0) (hst : Strong s0) (hwf : ∀ op ∈ ops, OpOK op) : Strong (run s0 ops) := by
  have := run_induction (fun s => Good G g cfg s ∧ Strong s) ops OpOK
    (by
      intro s s' hs ⟨hg, hs1⟩
      refine ⟨?_, same_preserves_strong hs hs1⟩
      obtain ⟨h1, h2, h3, h4⟩ := hg
      obtain ⟨a1, a2, _, a4, _⟩ := hs
      exact ⟨by rw [a2]; exact h1, by rw [a4]; exact h2, by unfold Inv; rw [a1]; exact ⟨h3, h4⟩⟩)
    (by
      intro s s' b ⟨hg, hs1⟩ hq he
      constructor
      · have := good_run s [.exec b] hg (by intro op hop; simp at hop; subst hop; exact hq)
        simpa [run, applyOp, he] using this
      · exact exec_preserves_strong hs1 hq.1 hq.2 hg.1 he)
    s0 ⟨h0, hst⟩ hwf
  exact this.2

end Sky.Ledger
