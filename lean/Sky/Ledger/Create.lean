/-
  Sky.Ledger.Create — facts about block creation (Visor.createBlockFromTxns) in any mode.
-/
import Sky.Ledger.Lemmas
namespace Sky.Ledger
open Sky

theorem ptLoop1_sublist {s : State} {arb : Bool} {txns kept : List Txn} {seen : List Id}
    (h : ptLoop1 s arb txns seen = .ok kept) :
    kept.Sublist txns ∧ ∀ t ∈ kept, verifyBlockTxn s t = .ok () := by
  induction txns generalizing seen kept with
  | nil => simp [ptLoop1] at h; subst h; simp
  | cons t rest ih =>
    simp only [ptLoop1] at h
    split at h
    · split at h
      · obtain ⟨h1, h2⟩ := ih h
        exact ⟨h1.cons _, h2⟩
      · cases h
    · rename_i hv
      split at h
      · cases h
      · rename_i seen' skip' _
        split at h
        · cases h
        · rename_i kept' hk
          obtain ⟨h1, h2⟩ := ih hk
          cases h
          split
          · exact ⟨h1.cons _, h2⟩
          · refine ⟨h1.cons₂ _, ?_⟩
            intro x hx
            simp at hx
            rcases hx with rfl | hx
            · exact hv
            · exact h2 x hx

theorem filterMap_flags_sublist {α} (l : List α) (fl : List Bool) :
    ((l.zip fl).filterMap fun (p : α × Bool) => if p.2 then none else some p.1).Sublist l := by
  induction l generalizing fl with
  | nil => simp
  | cons a l ih =>
    cases fl with
    | nil => simp
    | cons f fl =>
      simp only [List.zip_cons_cons, List.filterMap_cons]
      cases f
      · simp only [Bool.false_eq_true, if_false]; exact (ih fl).cons₂ _
      · simp only [if_true]; exact (ih fl).cons _

theorem mem_insertSorted {x y : Keyed} {l : List Keyed} (h : y ∈ insertSorted x l) : y.txn = x.txn ∨ y ∈ l := by
  induction l with
  | nil => simp [insertSorted] at h; left; rw [h]
  | cons a l ih =>
    simp only [insertSorted] at h
    split at h
    · simp at h
      rcases h with rfl | rfl | h
      · left; rfl
      · right; simp
      · right; simp [h]
    · simp at h
      rcases h with rfl | h
      · right; simp
      · rcases ih h with h' | h'
        · left; exact h'
        · right; simp [h']

theorem mem_sortKeyed {y : Keyed} {l : List Keyed} (h : y ∈ sortKeyed l) : ∃ x ∈ l, y.txn = x.txn := by
  unfold sortKeyed at h
  induction l with
  | nil => simp at h
  | cons a l ih =>
    simp only [List.foldr_cons] at h
    rcases mem_insertSorted h with h' | h'
    · exact ⟨a, by simp, h'⟩
    · obtain ⟨x, hx, hxe⟩ := ih h'
      exact ⟨x, by simp [hx], hxe⟩

theorem keyTxns_mem {s : State} {txns : List Txn} {keyed : List Keyed} (h : keyTxns s txns = .ok keyed) :
    ∀ k ∈ keyed, k.txn ∈ txns := by
  induction txns generalizing keyed with
  | nil => simp [keyTxns] at h; subst h; simp
  | cons t ts ih =>
    simp only [keyTxns] at h
    split at h
    · cases h
    · rename_i acc hacc
      have := ih hacc
      split at h
      · cases h; intro k hk; simp [this k hk]
      · split at h
        · cases h
        · cases h
        · cases h
          intro k hk
          simp at hk
          rcases hk with rfl | hk
          · simp
          · simp [this k hk]

theorem sortTransactions_mem {s : State} {txns l : List Txn} (h : sortTransactions s txns = .ok l) :
    ∀ t ∈ l, t ∈ txns := by
  unfold sortTransactions at h
  split at h
  · cases h
  · rename_i keyed hk
    cases h
    intro t ht
    simp only [List.mem_map] at ht
    obtain ⟨k, hk1, hk2⟩ := ht
    obtain ⟨x, hx, hxe⟩ := mem_sortKeyed hk1
    rw [← hk2, hxe]
    exact keyTxns_mem hk x hx

theorem ptCore_mem {s : State} {arb : Bool} {v r : List Txn} (h : ptCore s arb v = .ok r) :
    ∀ t ∈ r, t ∈ v ∧ verifyBlockTxn s t = .ok () := by
  unfold ptCore at h
  split at h
  · split at h
    · cases h; simp
    · cases h
  · split at h
    · cases h
    · rename_i kept hk
      split at h
      · cases h
      · rename_i fl _
        cases h
        obtain ⟨k1, k2⟩ := ptLoop1_sublist hk
        intro t ht
        have hsub := (filterMap_flags_sublist kept fl).subset ht
        exact ⟨k1.subset hsub, k2 t hsub⟩

/-- in ANY mode the result of `processTransactions` consists of transactions of its argument, each of
which passes the in-block hard constraints against the current state -/
theorem processTransactions_mem {s : State} {txns r : List Txn} (h : processTransactions s txns = .ok r) :
    ∀ t ∈ r, t ∈ txns ∧ verifyBlockTxn s t = .ok () := by
  unfold processTransactions at h
  split at h
  · cases h
  · split at h
    · split at h
      · cases h
      · rename_i v hv
        intro t ht
        obtain ⟨h1, h2⟩ := ptCore_mem h t ht
        exact ⟨sortTransactions_mem hv t h1, h2⟩
    · exact ptCore_mem h

theorem truncate_go_facts (size : Nat) (ts : List Txn) (total : Nat) (acc : List Txn) :
    ∃ taken, truncateBytesTo.go size ts total acc = acc.reverse ++ taken ∧ taken <+: ts ∧
      total + (taken.map (fun t => t.size.getD 0)).sum ≤ max total size := by
  induction ts generalizing total acc with
  | nil => exact ⟨[], by simp [truncateBytesTo.go], List.prefix_refl _, by simp; omega⟩
  | cons t rest ih =>
    simp only [truncateBytesTo.go]
    split
    · exact ⟨[], by simp, List.nil_prefix, by simp; omega⟩
    · rename_i sz hsz
      split
      · exact ⟨[], by simp, List.nil_prefix, by simp; omega⟩
      · split
        · exact ⟨[], by simp, List.nil_prefix, by simp; omega⟩
        · rename_i h1 h2
          obtain ⟨taken, e1, e2, e3⟩ := ih (total + sz) (t :: acc)
          refine ⟨t :: taken, ?_, ?_, ?_⟩
          · rw [e1]; simp
          · exact (List.prefix_cons_inj t).mpr e2
          · simp only [List.map_cons, List.sum_cons, hsz, Option.getD_some]
            omega

/-- Transactions.TruncateBytesTo: a prefix whose total encoded size does not exceed the limit -/
theorem truncateBytesTo_facts (txns : List Txn) (size : Nat) :
    truncateBytesTo txns size <+: txns ∧ ((truncateBytesTo txns size).map (fun t => t.size.getD 0)).sum ≤ size := by
  obtain ⟨taken, e1, e2, e3⟩ := truncate_go_facts size txns 0 []
  unfold truncateBytesTo
  rw [e1]
  simp only [List.reverse_nil, List.nil_append]
  exact ⟨e2, by simp at e3; omega⟩

end Sky.Ledger
