/-
  Sky.Ledger.AddrIndex — the per-address unspent index (unspent_pool_addr_index, poolAddrIndex.adjust)
  always lists, for every address, exactly the ids of the unspent outputs of that address.
-/
import Sky.Ledger.Run
namespace Sky.Ledger
open Sky

def idsOfAddr (us : List Ux) (a : Addr) : List Id := (us.filter (·.addr == a)).map (·.id)

/-- the index agrees with the unspent set, address by address (as sets of ids) -/
def AidxOK (s : State) : Prop := ∀ a id, id ∈ aidxGet s.aidx a ↔ id ∈ idsOfAddr s.unspent a

theorem find_filter_ne (ai : List (Addr × List Id)) (a b : Addr) (h : b ≠ a) :
    (ai.filter (·.1 != a)).find? (·.1 == b) = ai.find? (·.1 == b) := by
  induction ai with
  | nil => rfl
  | cons x xs ih =>
    simp only [List.filter_cons]
    by_cases hx : x.1 = a
    · have h1 : (x.1 != a) = false := by simp [hx]
      have h2 : (x.1 == b) = false := by simp [hx]; exact fun e => h e.symm
      simp only [h1, List.find?_cons, h2]
      exact ih
    · have h1 : (x.1 != a) = true := by simpa using hx
      simp only [h1, if_true, List.find?_cons]
      split
      · rfl
      · exact ih

theorem find_filter_self (ai : List (Addr × List Id)) (a : Addr) :
    (ai.filter (·.1 != a)).find? (·.1 == a) = none := by
  apply List.find?_eq_none.mpr
  intro x hx
  have := (List.mem_filter.mp hx).2
  simp at this ⊢
  exact this

theorem aidxGet_set (ai : List (Addr × List Id)) (a b : Addr) (l : List Id) :
    aidxGet (aidxSet ai a l) b = if b = a then l else aidxGet ai b := by
  unfold aidxGet aidxSet
  by_cases hb : b = a
  · subst hb
    rw [if_pos rfl]
    by_cases hl : l.isEmpty = true
    · rw [if_pos hl, find_filter_self]
      have : l = [] := by simpa using hl
      rw [this]
    · rw [if_neg hl, List.find?_append, find_filter_self]
      simp [List.find?_cons]
  · rw [if_neg hb]
    by_cases hl : l.isEmpty = true
    · rw [if_pos hl, find_filter_ne ai a b hb]
    · have hne : ((a, l).1 == b) = false := by
        simp only [beq_eq_false_iff_ne]; exact fun e => hb e.symm
      rw [if_neg hl, List.find?_append, find_filter_ne ai a b hb, List.find?_cons, hne, List.find?_nil]
      cases List.find? (fun x => x.1 == b) ai <;> rfl

theorem addIds_mem {rm add acc new : List Id} (h : addIds rm add acc = .ok new) :
    ∀ id, id ∈ new ↔ id ∈ acc ∨ id ∈ add := by
  induction add generalizing acc with
  | nil => simp [addIds] at h; subst h; simp
  | cons x xs ih =>
    simp only [addIds] at h
    split at h
    · cases h
    · split at h
      · cases h
      · intro id
        rw [ih h id]
        simp only [List.mem_append, List.mem_cons, List.not_mem_nil, or_false]
        constructor
        · rintro ((h1 | h1) | h1)
          · left; exact h1
          · right; left; exact h1
          · right; right; exact h1
        · rintro (h1 | h1 | h1)
          · left; left; exact h1
          · left; right; exact h1
          · right; exact h1
        done

/-- poolAddrIndex.adjust: other addresses untouched; the adjusted address lists (old − removed) ∪ added -/
theorem aidxAdjust_get {ai ai' : List (Addr × List Id)} {a : Addr} {add rm : List Id}
    (h : aidxAdjust ai a add rm = .ok ai') :
    (∀ b, b ≠ a → aidxGet ai' b = aidxGet ai b) ∧
    (∀ id, id ∈ aidxGet ai' a ↔ (id ∈ aidxGet ai a ∧ id ∉ rm) ∨ id ∈ add) := by
  unfold aidxAdjust at h
  split at h
  · rename_i hemp
    cases h
    have h1 : add = [] := by
      have := (Bool.and_eq_true _ _).mp hemp; simpa using this.1
    have h2 : rm = [] := by
      have := (Bool.and_eq_true _ _).mp hemp; simpa using this.2
    subst h1; subst h2
    exact ⟨fun _ _ => rfl, fun id => by simp⟩
  · simp only at h
    split at h
    · cases h
    · split at h
      · cases h
      · split at h
        · cases h
        · split at h
          · cases h
          · rename_i new hnew
            cases h
            refine ⟨fun b hb => by rw [aidxGet_set]; simp [hb], ?_⟩
            intro id
            rw [aidxGet_set]
            simp only [if_true]
            rw [addIds_mem hnew id]
            simp only [List.mem_filter]
            constructor
            · rintro (⟨h1, h2⟩ | h1)
              · left; exact ⟨h1, by simpa using h2⟩
              · right; exact h1
            · rintro (⟨h1, h2⟩ | h1)
              · left; exact ⟨h1, by simpa using h2⟩
              · right; exact h1

def createdIdsOf (created : List Ux) (a : Addr) : List Id := (created.filter (·.addr == a)).map (·.id)

/-- one pass over a duplicate-free address list -/
theorem aidxPass_get {created spent : List Ux} {addrs : List Addr} {ai ai' : List (Addr × List Id)}
    (h : aidxPass created spent addrs ai = .ok ai') (hn : addrs.Nodup) :
    (∀ b, b ∉ addrs → aidxGet ai' b = aidxGet ai b) ∧
    (∀ b, b ∈ addrs → ∀ id, id ∈ aidxGet ai' b ↔
        (id ∈ aidxGet ai b ∧ id ∉ idsOfAddr spent b) ∨ id ∈ idsOfAddr created b) := by
  induction addrs generalizing ai with
  | nil => simp [aidxPass] at h; subst h; simp
  | cons a rest ih =>
    simp only [aidxPass] at h
    split at h
    · cases h
    · rename_i ai1 h1
      obtain ⟨g1, g2⟩ := aidxAdjust_get h1
      simp only [List.nodup_cons] at hn
      obtain ⟨i1, i2⟩ := ih h hn.2
      constructor
      · intro b hb
        simp only [List.mem_cons, not_or] at hb
        rw [i1 b hb.2, g1 b hb.1]
      · intro b hb id
        simp only [List.mem_cons] at hb
        rcases hb with rfl | hb
        · rw [i1 b hn.1]
          exact g2 id
        · have hne : b ≠ a := fun e => hn.1 (e ▸ hb)
          rw [i2 b hb id, g1 b hne]

theorem mem_addrsOf {us : List Ux} {a : Addr} : a ∈ addrsOf us ↔ ∃ u ∈ us, u.addr = a := by
  unfold addrsOf
  simp [List.mem_eraseDups]

theorem nodup_eraseDups' {α} [BEq α] [LawfulBEq α] : ∀ (n : Nat) (l : List α), l.length ≤ n → l.eraseDups.Nodup := by
  intro n
  induction n with
  | zero => intro l hl; have : l = [] := List.length_eq_zero_iff.mp (by omega); subst this; simp
  | succ n ih =>
    intro l hl
    cases l with
    | nil => simp
    | cons a as =>
      rw [List.eraseDups_cons, List.nodup_cons]
      constructor
      · intro hm
        have := (List.mem_filter.mp (List.mem_eraseDups.mp hm)).2
        simp at this
      · apply ih
        have := List.length_filter_le (fun b => !b == a) as
        simp only [List.length_cons] at hl
        omega

theorem addrsOf_nodup (us : List Ux) : (addrsOf us).Nodup := by
  unfold addrsOf; exact nodup_eraseDups' _ _ (Nat.le_refl _)

theorem idsOfAddr_empty_of_not_mem {us : List Ux} {a : Addr} (h : a ∉ addrsOf us) : idsOfAddr us a = [] := by
  unfold idsOfAddr
  have : us.filter (·.addr == a) = [] := by
    apply List.filter_eq_nil_iff.mpr
    intro u hu
    have : u.addr ≠ a := fun e => h (mem_addrsOf.mpr ⟨u, hu, e⟩)
    simpa using this
  rw [this]; rfl

theorem mem_idsOfAddr {us : List Ux} {a : Addr} {id : Id} :
    id ∈ idsOfAddr us a ↔ ∃ u ∈ us, u.addr = a ∧ u.id = id := by
  unfold idsOfAddr
  simp only [List.mem_map, List.mem_filter, beq_iff_eq]
  constructor
  · rintro ⟨u, ⟨h1, h2⟩, h3⟩; exact ⟨u, h1, h2, h3⟩
  · rintro ⟨u, h1, h2, h3⟩; exact ⟨u, ⟨h1, h2⟩, h3⟩

theorem eq_of_id_eq {us : List Ux} (hn : (us.map (·.id)).Nodup) {u v : Ux} (hu : u ∈ us) (hv : v ∈ us)
    (h : u.id = v.id) : u = v := by
  induction us with
  | nil => cases hu
  | cons x xs ih =>
    simp only [List.map_cons, List.nodup_cons, List.mem_map, not_exists, not_and] at hn
    simp only [List.mem_cons] at hu hv
    rcases hu with rfl | hu <;> rcases hv with rfl | hv
    · rfl
    · exact absurd h.symm (hn.1 v hv)
    · exact absurd h (hn.1 u hu)
    · exact ih hn.2 hu hv

/-- what UnspentPool.ProcessBlock does to the address index: two passes of `adjust` -/
theorem unspentProcessBlock_aidx {s s1 : State} {b : Block} (h : unspentProcessBlock s b = .ok s1) :
    ∃ spent ai1, getArray s.unspent (blockInputs b) = .ok spent ∧
      aidxPass (blockCreated b) spent (addrsOf spent) s.aidx = .ok ai1 ∧
      aidxPass (blockCreated b) spent ((addrsOf (blockCreated b)).filter (fun a => !(addrsOf spent).contains a)) ai1
        = .ok s1.aidx := by
  unfold unspentProcessBlock at h
  simp only [bind, Except.bind] at h
  split at h
  · cases h
  · rename_i spent hsp
    split at h
    · cases h
    · split at h
      · cases h
      · rename_i ai1 h1
        split at h
        · cases h
        · rename_i ai2 h2
          split at h
          · split at h
            · cases h
            · cases h; exact ⟨spent, ai1, hsp, h1, h2⟩
          · split at h
            · cases h
            · cases h; exact ⟨spent, ai1, hsp, h1, h2⟩

/-- the combined effect of the two passes, for every address -/
theorem two_pass_get {created spent : List Ux} {ai ai1 ai2 : List (Addr × List Id)}
    (h1 : aidxPass created spent (addrsOf spent) ai = .ok ai1)
    (h2 : aidxPass created spent ((addrsOf created).filter (fun a => !(addrsOf spent).contains a)) ai1 = .ok ai2) :
    ∀ a id, id ∈ aidxGet ai2 a ↔
      (id ∈ aidxGet ai a ∧ id ∉ idsOfAddr spent a) ∨ id ∈ idsOfAddr created a := by
  obtain ⟨p1, p2⟩ := aidxPass_get h1 (addrsOf_nodup _)
  have hn2 : ((addrsOf created).filter (fun a => !(addrsOf spent).contains a)).Nodup :=
    (List.filter_sublist).nodup (addrsOf_nodup _)
  obtain ⟨q1, q2⟩ := aidxPass_get h2 hn2
  intro a id
  by_cases ha : a ∈ addrsOf spent
  · have hna : a ∉ (addrsOf created).filter (fun a => !(addrsOf spent).contains a) := by
      intro hm
      have := (List.mem_filter.mp hm).2
      simp [ha] at this
    rw [q1 a hna]
    exact p2 a ha id
  · by_cases hc : a ∈ addrsOf created
    · have hma : a ∈ (addrsOf created).filter (fun a => !(addrsOf spent).contains a) := by
        apply List.mem_filter.mpr
        exact ⟨hc, by simpa using ha⟩
      rw [q2 a hma id, p1 a ha]
    · have hna : a ∉ (addrsOf created).filter (fun a => !(addrsOf spent).contains a) :=
        fun hm => hc (List.mem_filter.mp hm).1
      rw [q1 a hna, p1 a ha, idsOfAddr_empty_of_not_mem ha, idsOfAddr_empty_of_not_mem hc]
      simp

/-- **the address index stays exact across an executed block** -/
theorem exec_preserves_aidx {s s' : State} {b : Block} (hnd : (s.unspent.map (·.id)).Nodup)
    (hai : AidxOK s) (h : execSigned s b = .ok s') : AidxOK s' := by
  obtain ⟨_, _, _, s1, hs1, hu, _, _, _, hidx, _⟩ := execSigned_ok h
  obtain ⟨_, _, hun, _⟩ := unspentProcessBlock_ok hs1
  obtain ⟨spent, ai1, hsp, h1, h2⟩ := unspentProcessBlock_aidx hs1
  obtain ⟨hids, hmem⟩ := getArray_ok hsp
  intro a id
  rw [hidx, hu, hun, two_pass_get h1 h2 a id, hai a id]
  simp only [mem_idsOfAddr, keptPool, List.mem_append, List.mem_filter]
  constructor
  · rintro (⟨⟨u, hu1, hu2, hu3⟩, hns⟩ | ⟨u, hu1, hu2, hu3⟩)
    · refine ⟨u, Or.inl ⟨hu1, ?_⟩, hu2, hu3⟩
      simp only [Bool.not_eq_true', List.contains_eq_mem, decide_eq_false_iff_not]
      intro hin
      apply hns
      rw [← hids] at hin
      obtain ⟨v, hv1, hv2⟩ := List.mem_map.mp hin
      have : v = u := eq_of_id_eq hnd (hmem v hv1) hu1 hv2
      subst this
      exact ⟨v, hv1, hu2, hu3⟩
    · exact ⟨u, Or.inr hu1, hu2, hu3⟩
  · rintro ⟨u, (⟨hu1, hu0⟩ | hu1), hu2, hu3⟩
    · left
      refine ⟨⟨u, hu1, hu2, hu3⟩, ?_⟩
      rintro ⟨v, hv1, _, hv3⟩
      simp only [Bool.not_eq_true', List.contains_eq_mem, decide_eq_false_iff_not] at hu0
      apply hu0
      rw [← hids, hu3, ← hv3]
      exact List.mem_map.mpr ⟨v, hv1, rfl⟩
    · right; exact ⟨u, hu1, hu2, hu3⟩

/-- **C07 (address index)**: after any history of operations from a state whose index is exact, the index
is exact: for every address it lists exactly the ids of that address's unspent outputs. -/
theorem aidx_after_run {G : Nat} {g : Block} {cfg : Cfg} (s : State) (ops : List Op)
    (h0 : Good G g cfg s) (hai : AidxOK s) (hwf : ∀ op ∈ ops, OpOK op) : AidxOK (run s ops) := by
  have := run_induction (fun s => Good G g cfg s ∧ AidxOK s) ops OpOK
    (by
      intro s s' hs ⟨hg, ha⟩
      refine ⟨?_, ?_⟩
      · obtain ⟨h1, h2, h3, h4⟩ := hg
        obtain ⟨a1, a2, _, a4, _⟩ := hs
        exact ⟨by rw [a2]; exact h1, by rw [a4]; exact h2, by unfold Inv; rw [a1]; exact ⟨h3, h4⟩⟩
      · obtain ⟨a1, _, _, _, a5, _⟩ := hs
        intro a id; rw [a5, a1]; exact ha a id)
    (by
      intro s s' b ⟨hg, ha⟩ hq he
      constructor
      · have := good_run s [.exec b] hg (by intro op hop; simp at hop; subst hop; exact hq)
        simpa [run, applyOp, he] using this
      · exact exec_preserves_aidx hg.2.2.1 ha he)
    s ⟨h0, hai⟩ hwf
  exact this.2

end Sky.Ledger
