/-
  Sky.Ledger.Model — executable model of the node's ledger logic (core Lean only).

  Modelled code (src/visor, src/coin, src/transaction, src/visor/blockdb, src/visor/historydb):
    Visor.executeSignedBlock(Unsafe), Blockchain.ExecuteBlock/processBlock/verifyBlockHeader/
    verifyUxHash/processTransactions (both arbitrating modes)/VerifyBlockTxnConstraints/
    VerifySingleTxnHardConstraints/VerifySingleTxnSoftHardConstraints, transaction.verifyTxn*Constraints,
    coin.VerifyTransactionCoinsSpending/HoursSpending, UxArray.CoinHours, fee.TransactionFee/
    VerifyTransactionFee, Unspents.ProcessBlock (+ poolAddrIndex), UnconfirmedTransactionPool.
    InjectTransaction/Refresh/RemoveInvalid/RemoveTransactions, HistoryDB.ParseBlock,
    Visor.createBlockFromTxns + coin.SortTransactions/TruncateBytesTo + Blockchain.NewBlock.

  NOT modelled here (supplied per operation by the real code as annotations, see harness/ledger):
    byte encodings and SHA-256 (ids, header/body/snapshot hashes, sizes), signature recovery, and
    the well-formedness verdict of coin.Transaction.Verify (C09's subject).  Ids are opaque strings.
  Each DB transaction of the code is one total function here; a rejected operation returns the
  state unchanged (bolt rolls the transaction back).
-/
import Sky.Prim.Res
import Sky.C31.Spec
namespace Sky.Ledger
open Sky

abbrev Id := String
abbrev Addr := String

structure Out where
  addr : Addr
  coins : Nat
  hours : Nat
  id : Id          -- uxid under the transaction's own hash (non-genesis rule)
  snap : Nat := 0  -- snapshot hash (64-bit prefix) in the block being executed
  cid : Id := ""   -- id of this output under a ZERO source hash (see `collides`)
deriving Repr, DecidableEq, Inhabited

structure Txn where
  hash : Id
  wf : String            -- verdict of coin.Transaction.Verify():  "ok" or error code
  size : Option Nat      -- encoded size (none = size error)
  ins : List Id
  sgs : List String      -- per input: address the signature recovers to, "0" null, "x" invalid
  outs : List Out
deriving Repr, DecidableEq, Inhabited

structure Ux where
  id : Id
  addr : Addr
  coins : Nat
  hours : Nat
  time : Nat
  seq : Nat
  src : Id
  snap : Nat := 0
deriving Repr, DecidableEq, Inhabited

structure Block where
  seq : Nat
  time : Nat
  fee : Nat
  ver : Nat
  prev : Id
  body : Id     -- header's BodyHash
  uxh : Id      -- header's UxHash (16 hex digits)
  hh : Id       -- hash of this header (computed by the real code)
  cb : Id       -- body hash computed from the transactions
  sig : Bool    -- signature verifies under the configured publisher key over hh
  txns : List Txn
deriving Repr, DecidableEq, Inhabited

structure VParams where
  burn : Nat
  maxSize : Nat
  prec : Nat
deriving Repr, DecidableEq, Inhabited

structure Cfg where
  arb : Bool
  unconfirmed : VParams
  create : VParams
  user : VParams
  maxBlock : Nat
  locked : List Addr
deriving Repr, DecidableEq, Inhabited

structure PoolEntry where
  txn : Txn
  valid : Bool
deriving Repr, DecidableEq, Inhabited

structure HistOut where
  id : Id
  addr : Addr
  coins : Nat
  spent : Option (Nat × Id)
deriving Repr, DecidableEq, Inhabited

structure State where
  cfg : Cfg
  chain : List Block := []           -- oldest first
  unspent : List Ux := []
  xor : Nat := 0
  aidx : List (Addr × List Id) := []
  aih : Option Nat := none
  pool : List PoolEntry := []
  hparsed : Option Nat := none
  houts : List HistOut := []
  htxns : List (Id × Nat) := []
  haddrUx : List (Addr × List Id) := []
  haddrTxns : List (Addr × List Id) := []
deriving Repr, Inhabited

abbrev R := Except String

/-! ### checked arithmetic (specs proved equal to the regenerated Go in Sky.Props.C31) -/

def addU64? (a b : Nat) : Option Nat := if a + b < 2^64 then some (a + b) else none

/-- left-to-right checked sum starting from `acc` (the Go loops `x, err = AddUint64(x, v)`) -/
def sumFrom? : List Nat → Nat → Option Nat
  | [], acc => some acc
  | x :: xs, acc => match addU64? acc x with
    | some a => sumFrom? xs a
    | none => none

def sumU64? (xs : List Nat) : Option Nat := sumFrom? xs 0

/-- accrued coin hours; error code as the ledger reports it -/
def coinHours (u : Ux) (t : Nat) : R Nat :=
  match Sky.C31.specCoinHours u.coins u.hours u.time t with
  | .ok h => .ok h
  | .err (.named _) => .error "coinhours-add-ovf"
  | .err _ => .error "coinhours-ovf"
  | .panic _ => .error "panic"

/-! ### unspent pool -/

def findUx (us : List Ux) (id : Id) : Option Ux := us.find? (·.id == id)

def getArray (us : List Ux) : List Id → R (List Ux)
  | [] => .ok []
  | id :: ids =>
    match findUx us id with
    | none => .error "nounspent"
    | some u => match getArray us ids with
      | .error e => .error e
      | .ok l => .ok (u :: l)

def contains (us : List Ux) (id : Id) : Bool := us.any (·.id == id)

def hasDup : List Id → Bool
  | [] => false
  | x :: xs => xs.contains x || hasDup xs

/-- coin.CreateUnspents (the genesis header, seq 0, uses a zero source hash; the output ids are the
ones the real code derives for that header) -/
def createUnspents (time seq : Nat) (t : Txn) : List Ux :=
  t.outs.map fun o => { id := o.id, addr := o.addr, coins := o.coins, hours := o.hours,
                        time := time, seq := seq,
                        src := if seq == 0 then "0000000000000000" else t.hash, snap := o.snap }

/-! ### transaction verification -/

def verifyCoinsSpending (uxIn : List Ux) (outs : List Out) : R Unit := do
  let some cin := sumU64? (uxIn.map (·.coins)) | .error "incoins-ovf"
  let some cout := sumU64? (outs.map (·.coins)) | .error "outcoins-ovf2"
  if cin < cout then .error "insufficient-coins"
  else if cin > cout then .error "destroy-coins"
  else .ok ()

/-- input hours with the documented legacy exception (AddEarned overflow counts as 0) -/
def hoursInLegacy (headTime : Nat) : List Ux → Nat → R Nat
  | [], acc => .ok acc
  | u :: us, acc =>
    match coinHours u headTime with
    | .error "coinhours-add-ovf" =>
        (match addU64? acc 0 with | some a => hoursInLegacy headTime us a | none => .error "inhours-ovf")
    | .error e => .error e
    | .ok h => match addU64? acc h with
      | some a => hoursInLegacy headTime us a
      | none => .error "inhours-ovf"

def verifyHoursSpending (headTime : Nat) (uxIn : List Ux) (outs : List Out) : R Unit := do
  let hin ← hoursInLegacy headTime uxIn 0
  -- NOTE: the output sum is UNCHECKED in the code (wraps modulo 2^64) — known finding F14
  let hout := (outs.foldl (fun a o => a + o.hours) 0) % 2^64
  if hin < hout then .error "insufficient-hours" else .ok ()

def checkSigs : List Ux → List String → R Unit
  | [], _ => .ok ()
  | _ :: _, [] => .error "unsigned-input"
  | u :: us, s :: ss =>
    if s == "0" then .error "unsigned-input"
    else if s != u.addr then .error "sig-not-owner"
    else checkSigs us ss

/-- transaction.verifyTxnHardConstraints, signed flavour (the only one the node uses) -/
def verifyTxnHard (t : Txn) (headTime : Nat) (uxIn : List Ux) : R Unit := do
  if t.wf != "ok" then .error t.wf
  checkSigs uxIn t.sgs
  if hasDup (t.outs.map (·.id)) then .error "dupout"
  verifyCoinsSpending uxIn t.outs
  verifyHoursSpending headTime uxIn t.outs

def hard (r : R α) : R α := match r with | .ok a => .ok a | .error e => .error ("hard:" ++ e)
def soft (r : R α) : R α := match r with | .ok a => .ok a | .error e => .error ("soft:" ++ e)

def headTime (s : State) : Nat := match s.chain.getLast? with | some b => b.time | none => 0
def headSeq (s : State) : Nat := match s.chain.getLast? with | some b => b.seq | none => 0

/-- DebugLevel1 collision check: `coin.CreateUnspents(head, txn)` — while the head is the genesis block
(seq 0) this derives the ids with a ZERO source hash (`cid`), afterwards with the transaction's hash -/
def collides (s : State) (t : Txn) : Bool :=
  t.outs.any fun o => contains s.unspent (if headSeq s == 0 then o.cid else o.id)

/-- Blockchain.VerifyBlockTxnConstraints -/
def verifyBlockTxn (s : State) (t : Txn) : R Unit := do
  let uxIn ← hard (getArray s.unspent t.ins)
  hard (verifyTxnHard t (headTime s) uxIn)
  if collides s t then .error "hard:ux-collide"
  .ok ()

def outputHours? (t : Txn) : Option Nat := sumU64? (t.outs.map (·.hours))

/-- transaction.VerifySingleTxnHardConstraints + the DebugLevel1 collision check -/
def verifySingleHardWith (s : State) (t : Txn) (uxIn : List Ux) : R Unit := do
  if (outputHours? t).isNone then .error "hard:outhours-ovf"
  let _ ← hard (uxIn.mapM fun u => coinHours u (headTime s))
  hard (verifyTxnHard t (headTime s) uxIn)
  if collides s t then .error "hard:ux-collide"
  .ok ()

/-- Blockchain.VerifySingleTxnHardConstraints -/
def verifySingleHard (s : State) (t : Txn) : R Unit := do
  let uxIn ← hard (getArray s.unspent t.ins)
  verifySingleHardWith s t uxIn

def pow10 : Nat → Nat | 0 => 1 | n + 1 => 10 * pow10 n

/-- UxArray.CoinHours -/
def uxArrayHours (headTime : Nat) : List Ux → Nat → R Nat
  | [], acc => .ok acc
  | u :: us, acc => do
    let h ← coinHours u headTime
    match addU64? acc h with
    | some a => uxArrayHours headTime us a
    | none => .error "uxarray-hours-ovf"

/-- fee.TransactionFee -/
def transactionFee (t : Txn) (headTime : Nat) (uxIn : List Ux) : R Nat := do
  let hin ← uxArrayHours headTime uxIn 0
  let some hout := outputHours? t | .error "outhours-ovf"
  if hin < hout then .error "fee-insufficient-hours" else .ok (hin - hout)

/-- transaction.verifyTxnSoftConstraints -/
def verifySoft (t : Txn) (headTime : Nat) (uxIn : List Ux) (p : VParams) (locked : List Addr) : R Unit := do
  let some sz := t.size | .error "toobig"
  if sz > p.maxSize then .error "toobig"
  let f ← transactionFee t headTime uxIn
  let some hours := outputHours? t | .error "outhours-ovf"
  if f = 0 then .error "nofee"
  if hours + f ≥ 2^64 then .error "hours-fee-ovf"
  if p.burn = 0 then .error "panic"
  if f < Sky.C31.ceilDiv (hours + f) p.burn then .error "lowfee"
  if uxIn.any (fun u => locked.contains u.addr) then .error "locked"
  if p.prec > 6 then .error "panic"
  if t.outs.any (fun o => o.coins % pow10 (6 - p.prec) != 0) then .error "decimals"
  .ok ()

/-- Blockchain.VerifySingleTxnSoftHardConstraints -/
def verifySingleSoftHard (s : State) (t : Txn) (p : VParams) : R Unit := do
  let uxIn ← hard (getArray s.unspent t.ins)
  verifySingleHardWith s t uxIn
  soft (verifySoft t (headTime s) uxIn p s.cfg.locked)

/-! ### ordering of transactions (coin.SortTransactions) -/

/-- fee per kilobyte as the code computes it: MultUint64 saturates, size from the encoding -/
def feeKB (fee size : Nat) : Nat :=
  (if fee * 1024 < 2^64 then fee * 1024 else 2^64 - 1) / size

structure Keyed where
  txn : Txn
  fee : Nat
deriving Inhabited

def kless (a b : Keyed) : Bool :=
  if a.fee == b.fee then a.txn.hash < b.txn.hash else a.fee > b.fee

def insertSorted (x : Keyed) : List Keyed → List Keyed
  | [] => [x]
  | y :: ys => if kless x y then x :: y :: ys else y :: insertSorted x ys

def sortKeyed (xs : List Keyed) : List Keyed := xs.foldr insertSorted []

/-- fee of a transaction against the current head, as Blockchain.TransactionFee computes it -/
def txnFee (s : State) (t : Txn) : R Nat :=
  match getArray s.unspent t.ins with
  | .error e => .error e
  | .ok uxIn => transactionFee t (headTime s) uxIn

/-- NewSortableTransactions: a transaction whose fee cannot be computed is dropped -/
def keyTxns (s : State) : List Txn → R (List Keyed)
  | [] => .ok []
  | t :: ts =>
    match keyTxns s ts with
    | .error e => .error e
    | .ok acc =>
      match txnFee s t with
      | .error _ => .ok acc
      | .ok f => match t.size with
        | none => .error "size"
        | some 0 => .error "panic"
        | some sz => .ok ({ txn := t, fee := feeKB f sz } :: acc)

def sortTransactions (s : State) (txns : List Txn) : R (List Txn) :=
  match keyTxns s txns with
  | .error e => .error e
  | .ok keyed => .ok ((sortKeyed keyed).map (·.txn))

/-! ### Blockchain.processTransactions -/

/-- pending-output uniqueness for one transaction: in arbitrating mode a clash marks the txn
    skipped but the loop continues with the next output (the inner `continue` of the Go code),
    still recording the non-clashing hashes -/
def ptOuts (s : State) (arb : Bool) : List Out → List Id → Bool → R (List Id × Bool)
  | [], seen, skip => .ok (seen, skip)
  | o :: os, seen, skip =>
    if seen.contains o.id then
      (if arb then ptOuts s arb os seen true else .error "dupux-block")
    else if contains s.unspent o.id then
      (if arb then ptOuts s arb os seen true else .error "ux-in-pool")
    else ptOuts s arb os (o.id :: seen) skip

/-- first loop: per-transaction constraints + pending-output uniqueness.
    returns the kept transactions, in order -/
def ptLoop1 (s : State) (arb : Bool) : List Txn → List Id → R (List Txn)
  | [], _ => .ok []
  | t :: rest, uxHashes =>
    match verifyBlockTxn s t with
    | .error e =>
      if arb && e.startsWith "hard:" then ptLoop1 s arb rest uxHashes
      else .error e
    | .ok () =>
      match ptOuts s arb t.outs uxHashes false with
      | .error e => .error e
      | .ok (seen, skip) =>
        match ptLoop1 s arb rest seen with
        | .error e => .error e
        | .ok kept => .ok (if skip then kept else t :: kept)

def sharesInput (a b : Txn) : Bool := a.ins.any fun x => b.ins.contains x

/-- row of the double loop: compare `t` with every later transaction -/
def ptRow (arb : Bool) (t : Txn) : List Txn → R (List Bool)
  | [] => .ok []
  | u :: us =>
    if t.hash == u.hash then .error "duptxn"
    else if sharesInput t u then
      (if arb then (match ptRow arb t us with | .error e => .error e | .ok fl => .ok (true :: fl))
       else .error "dblspend-block")
    else match ptRow arb t us with | .error e => .error e | .ok fl => .ok (false :: fl)

/-- second loop: for i<j, equal hashes are fatal; a shared input skips j (arbitrating) or fails.
    Skipped transactions still take part in later comparisons, as in the Go code. -/
def ptLoop2 (arb : Bool) : List Txn → R (List Bool)
  | [] => .ok []
  | t :: rest =>
    match ptRow arb t rest with
    | .error e => .error e
    | .ok flags => match ptLoop2 arb rest with
      | .error e => .error e
      | .ok restFlags => .ok (false :: (List.zipWith (· || ·) flags restFlags))

/-- the part of `processTransactions` after the optional sort.  The order of error detection in the Go
    double loop is (i, j) lexicographic with the duptxn check before the inputs check; `ptLoop2`
    explores i's row completely before later rows, as Go does. -/
def ptCore (s : State) (arb : Bool) (v : List Txn) : R (List Txn) :=
  if v.isEmpty then (if arb then .ok [] else .error "notxns")
  else match ptLoop1 s arb v [] with
    | .error e => .error e
    | .ok kept => match ptLoop2 arb kept with
      | .error e => .error e
      | .ok fl => .ok ((kept.zip fl).filterMap fun (p : Txn × Bool) => if p.2 then none else some p.1)

def processTransactions (s : State) (txns : List Txn) : R (List Txn) :=
  if s.chain.isEmpty then .error "nohead"
  else if s.cfg.arb then
    (match sortTransactions s txns with | .error e => .error e | .ok v => ptCore s true v)
  else ptCore s false txns

/-! ### unspent pool update (Unspents.ProcessBlock) -/

def xorList (xs : List Nat) (acc : Nat) : Nat := xs.foldl (· ^^^ ·) acc

def aidxGet (ai : List (Addr × List Id)) (a : Addr) : List Id :=
  match ai.find? (·.1 == a) with | some (_, l) => l | none => []

def aidxSet (ai : List (Addr × List Id)) (a : Addr) (l : List Id) : List (Addr × List Id) :=
  let rest := ai.filter (·.1 != a)
  if l.isEmpty then rest else rest ++ [(a, l)]

/-- the add loop of poolAddrIndex.adjust: append each new hash unless it is being removed or is
already indexed -/
def addIds (rm : List Id) : List Id → List Id → R (List Id)
  | [], acc => .ok acc
  | h :: rest, acc =>
    if rm.contains h then .error "aidx-add-rm"
    else if acc.contains h then .error "aidx-already"
    else addIds rm rest (acc ++ [h])

/-- poolAddrIndex.adjust -/
def aidxAdjust (ai : List (Addr × List Id)) (a : Addr) (add rm : List Id) : R (List (Addr × List Id)) :=
  if add.isEmpty && rm.isEmpty then .ok ai
  else
    let existing := aidxGet ai a
    if hasDup rm then .error "aidx-rm-dup"
    else if existing.length < rm.length then .error "aidx-rm-longer"
    else
      let kept := existing.filter (fun h => !rm.contains h)
      if existing.length - kept.length != rm.length then .error "aidx-rm-missing"
      else match addIds rm add kept with
        | .error e => .error e
        | .ok new => .ok (aidxSet ai a new)

/-- one pass of address-index adjustments over a list of addresses -/
def aidxPass (created spent : List Ux) : List Addr → List (Addr × List Id) → R (List (Addr × List Id))
  | [], ai => .ok ai
  | a :: rest, ai =>
    match aidxAdjust ai a ((created.filter (·.addr == a)).map (·.id)) ((spent.filter (·.addr == a)).map (·.id)) with
    | .error e => .error e
    | .ok ai' => aidxPass created spent rest ai'

def addrsOf (us : List Ux) : List Addr := (us.map (·.addr)).eraseDups

def unspentProcessBlock (s : State) (b : Block) : R State := do
  let inputs := b.txns.flatMap (·.ins)
  let created := b.txns.flatMap (createUnspents b.time b.seq)
  let spent ← getArray s.unspent inputs
  let xor1 := xorList (spent.map (·.snap)) s.xor
  let pool1 := s.unspent.filter (fun u => !inputs.contains u.id)
  -- "inserted twice" guard
  if created.any (fun u => contains pool1 u.id) then .error "ux-twice"
  let pool2 := pool1 ++ created
  let xor2 := xorList (created.map (·.snap)) xor1
  let rmAddrs := addrsOf spent
  let ai1 ← aidxPass created spent rmAddrs s.aidx
  let addAddrs := (addrsOf created).filter (fun a => !rmAddrs.contains a)
  -- for these addresses nothing is removed (`spent` has no output of theirs)
  let ai2 ← aidxPass created spent addAddrs ai1
  if b.seq == 0 then
    if s.aih.isSome then .error "aih-set"
  else if some b.seq != s.aih.map (· + 1) then .error "out-of-order"
  .ok { s with unspent := pool2, xor := xor2, aidx := ai2, aih := some b.seq }

/-! ### history (HistoryDB.ParseBlock) -/

def listAdd (m : List (Addr × List Id)) (a : Addr) (h : Id) : List (Addr × List Id) :=
  match m.find? (·.1 == a) with
  | some (_, l) => if l.contains h then m else m.map fun (k, v) => if k == a then (k, v ++ [h]) else (k, v)
  | none => m ++ [(a, [h])]

def parseTxn (seq : Nat) (created : List Ux) (s : State) (t : Txn) : R State := do
  let htxns := (s.htxns.filter (·.1 != t.hash)) ++ [(t.hash, seq)]
  -- inputs
  let (houts, hat) ← t.ins.foldlM (fun (acc : List HistOut × List (Addr × List Id)) i =>
      match acc.1.find? (·.id == i) with
      | none => (.error "history-input-missing" : R _)
      | some o => .ok (acc.1.map (fun x => if x.id == i then { x with spent := some (seq, t.hash) } else x),
                       listAdd acc.2 o.addr t.hash)) (s.houts, s.haddrTxns)
  let houts2 := created.foldl (fun acc u =>
      (acc.filter (·.id != u.id)) ++ [{ id := u.id, addr := u.addr, coins := u.coins, spent := none }]) houts
  let hau := created.foldl (fun m u => listAdd m u.addr u.id) s.haddrUx
  let hat2 := created.foldl (fun m u => listAdd m u.addr t.hash) hat
  .ok { s with htxns := htxns, houts := houts2, haddrUx := hau, haddrTxns := hat2 }

def parseBlock (s : State) (b : Block) : R State := do
  let s' ← b.txns.foldlM (fun st t => parseTxn b.seq (createUnspents b.time b.seq t) st t) s
  .ok { s' with hparsed := some b.seq }

/-! ### block execution -/

def verifyBlockHeader (s : State) (b : Block) : R Unit := do
  let some head := s.chain.getLast? | .error "nohead"
  if b.seq != head.seq + 1 then .error "bkseq"
  if b.time ≤ head.time then .error "time"
  if b.prev != head.hh then .error "prevhash"
  if b.cb != b.body then .error "bodyhash"
  .ok ()

def hex16 (n : Nat) : String :=
  let d (k : Nat) : Char := if k < 10 then Char.ofNat (48 + k) else Char.ofNat (87 + k)
  String.ofList ((List.range 16).reverse.map fun i => d (n / 16^i % 16))

def sameTxns (a b : List Txn) : Bool := a.map (·.hash) == b.map (·.hash)

/-- Blockchain.processBlock -/
def processBlock (s : State) (b : Block) : R Unit := do
  match s.chain.head? with
  | none => .ok ()
  | some g =>
    if g.hh == b.hh then .error "genesis2"
    verifyBlockHeader s b
    let txns ← processTransactions s b.txns
    if !sameTxns txns b.txns then .error "arbitrated"
    if b.uxh != hex16 s.xor then .error "uxhash"
    .ok ()

/-- Visor.executeSignedBlock: one DB transaction; on error the state is unchanged -/
def execSigned (s : State) (b : Block) : R State := do
  if !b.sig then .error "badsig"
  processBlock s b
  -- blockdb.Blockchain.AddBlock
  if s.chain.any (·.hh == b.hh) then .error "save-block"
  if b.seq > 0 && b.prev == "0000000000000000" then .error "save-block"
  let s1 ← unspentProcessBlock s b
  let s2 := { s1 with chain := s1.chain ++ [b] }
  -- pool.RemoveTransactions
  let hs := b.txns.map (·.hash)
  let s3 := { s2 with pool := s2.pool.filter (fun e => !hs.contains e.txn.hash) }
  parseBlock s3 b

/-! ### unconfirmed pool -/

/-- UnconfirmedTransactionPool.InjectTransaction; returns (known, soft error, state) -/
def injectWith (s : State) (t : Txn) (p : VParams) : R (Bool × Option String × State) :=
  let (valid, softErr, fatal) : Bool × Option String × Option String :=
    match verifySingleSoftHard s t p with
    | .ok () => (true, none, none)
    | .error e => if e.startsWith "soft:" then (false, some e, none) else (false, none, some e)
  match fatal with
  | some e => .error e
  | none =>
    if s.pool.any (·.txn.hash == t.hash) then
      .ok (true, softErr, { s with pool := s.pool.map fun e => if e.txn.hash == t.hash then { e with valid := valid } else e })
    else
      .ok (false, softErr, { s with pool := s.pool ++ [{ txn := t, valid := valid }] })

def injectForeign (s : State) (t : Txn) : R (Bool × Option String × State) :=
  injectWith s t s.cfg.unconfirmed

/-- Visor.InjectUserTransactionTx -/
def injectUser (s : State) (t : Txn) : R (Bool × State) := do
  if t.outs.any (·.addr == "anull") then .error "user:null-address"
  verifySingleSoftHard s t s.cfg.user
  let (known, _, s') ← injectWith s t s.cfg.user
  .ok (known, s')

def insPool (e : PoolEntry) : List PoolEntry → List PoolEntry
  | [] => [e]
  | y :: ys => if e.txn.hash < y.txn.hash then e :: y :: ys else y :: insPool e ys

/-- pool iteration order = bolt key order = ascending transaction hash -/
def poolSorted (s : State) : List PoolEntry := s.pool.foldr insPool []

def refreshStep (s : State) (acc : List Id × List PoolEntry) (e : PoolEntry) : List Id × List PoolEntry :=
  match verifySingleSoftHard s e.txn s.cfg.unconfirmed with
  | .ok () => ((if e.valid then acc.1 else acc.1 ++ [e.txn.hash]), acc.2 ++ [{ e with valid := true }])
  | .error _ => (acc.1, acc.2 ++ [{ e with valid := false }])

/-- Refresh: returns hashes that became valid -/
def refresh (s : State) : List Id × State :=
  let r := (poolSorted s).foldl (refreshStep s) ([], [])
  (r.1, { s with pool := r.2 })

def hardBad (s : State) (e : PoolEntry) : Bool :=
  match verifySingleHard s e.txn with
  | .ok () => false
  | .error _ => true

/-- RemoveInvalid: drops entries violating hard constraints; returns their hashes -/
def removeInvalid (s : State) : List Id × State :=
  let hs := ((poolSorted s).filter (hardBad s)).map (·.txn.hash)
  (hs, { s with pool := s.pool.filter fun e => !hs.contains e.txn.hash })

/-- visor.New + Visor.Init on an existing database: CreateBuckets, MaybeBuildIndexes and
initHistory are no-ops when index height and parsed sequence are current (invariants of `run`);
Init then removes pool entries that violate hard constraints. -/
def restart (s : State) : State := (removeInvalid s).2

/-! ### block creation (Visor.createBlockFromTxns) -/

def truncateBytesTo (txns : List Txn) (size : Nat) : List Txn :=
  let rec go (ts : List Txn) (total : Nat) (acc : List Txn) : List Txn :=
    match ts with
    | [] => acc.reverse
    | t :: rest =>
      match t.size with
      | none => acc.reverse
      | some sz =>
        if total + sz ≥ 2^32 then acc.reverse
        else if total + sz > size then acc.reverse
        else go rest (total + sz) (t :: acc)
  go txns 0 []

/-- returns the transactions of the created block and its fee -/
def createBlock (s : State) (txns : List Txn) (when_ : Nat) : R (List Txn × Nat) := do
  if txns.isEmpty then .error "notxns"
  let filtered := txns.filter fun t => match verifySingleSoftHard s t s.cfg.create with
    | .ok () => true | .error _ => false
  if filtered.isEmpty then .error "notxns-filtered"
  let sorted ← sortTransactions s filtered
  let trunc := truncateBytesTo sorted s.cfg.maxBlock
  let trunc := trunc.take 65535
  if trunc.isEmpty then .error "panic"
  -- Blockchain.NewBlock
  if when_ ≤ headTime s then .error "time-forward"
  let txns2 ← processTransactions s trunc
  if txns2.isEmpty then .error "notxns-newblock"   -- coin.NewBlock refuses an empty list
  let fees ← txns2.mapM (txnFee s)
  let some fee := sumU64? fees | .error "block-fees"
  .ok (txns2, fee)

/-! ### balance view (Visor.GetBalanceOfAddresses) -/

/-- UxArray.CoinHours: per-output accrued hours, summed with overflow check -/
def uaHours (t : Nat) : List Ux → Nat → R Nat
  | [], acc => .ok acc
  | u :: us, acc => match coinHours u t with
    | .error e => .error e
    | .ok h => match addU64? acc h with
      | none => .error "uxarray-hours-ovf"
      | some a => uaHours t us a

structure Bal where
  cc : Nat
  ch : Nat
  pc : Nat
  ph : Nat
deriving Repr, DecidableEq, Inhabited

/-- the predicted outputs of the pool for one address: `coin.CreateUnspent(head, txn, i)` — their ids are
derived with a zero source hash while the head is the genesis block -/
def incomingOf (s : State) (a : Addr) : List Ux :=
  (s.pool.flatMap fun e => e.txn.outs.filter (·.addr == a)).map fun o =>
    { id := if headSeq s == 0 then o.cid else o.id, addr := o.addr, coins := o.coins, hours := o.hours,
      time := headTime s, seq := headSeq s, src := "" }

/-- one address of GetBalanceOfAddresses, given the outputs the pool spends -/
def balanceOf (s : State) (spentAll : List Ux) (a : Addr) : R Bal := do
  let uxs ← getArray s.unspent (aidxGet s.aidx a)
  let outIds := (spentAll.filter (·.addr == a)).map (·.id)
  let kept := uxs.filter fun u => !outIds.contains u.id           -- uxs.Sub(outUxs)
  let keptIds := kept.map (·.id)
  let predicted := kept ++ (incomingOf s a).filter fun u => !keptIds.contains u.id   -- .Add(inUxs)
  let some cc := sumU64? (uxs.map (·.coins)) | .error "bal-coins-ovf"
  let ch ← (match uaHours (headTime s) uxs 0 with
    | .ok h => (.ok h : R Nat)
    | .error e => if e == "coinhours-add-ovf" then .ok 0 else .error e)
  let some pc := sumU64? (predicted.map (·.coins)) | .error "bal-coins-ovf"
  match uaHours (headTime s) predicted 0 with
  | .ok ph => .ok { cc := cc, ch := ch, pc := pc, ph := ph }
  | .error e =>
    -- as the code does: on this overflow it zeroes the CONFIRMED hours variable and reports predicted hours 0
    if e == "coinhours-add-ovf" then .ok { cc := cc, ch := 0, pc := pc, ph := 0 } else .error e

/-- Visor.GetBalanceOfAddresses: fails as a whole when an input of a pooled transaction is not unspent -/
def balances (s : State) (addrs : List Addr) : R (List (Addr × Bal)) := do
  let spentAll ← getArray s.unspent (s.pool.flatMap (·.txn.ins))
  addrs.mapM fun a => do
    let b ← balanceOf s spentAll a
    pure (a, b)

/-! ### block synchronisation (daemon GiveBlocksMessage / AnnounceBlocksMessage / GetBlocksMessage) -/

/-- GiveBlocksMessage.process: skip blocks at or below the head sequence AS OF THE START of the message,
execute the others in arrival order, stop the message at the first failure -/
def giveLoop (maxSeq : Nat) : State → List Block → Nat → State × Nat
  | s, [], n => (s, n)
  | s, b :: bs, n =>
    if b.seq ≤ maxSeq then giveLoop maxSeq s bs n
    else match execSigned s b with
      | .ok s' => giveLoop maxSeq s' bs (n + 1)
      | .error _ => (s, n)

/-- returns the new state, the number of blocks processed and the messages emitted -/
def giveBlocks (s : State) (blocks : List Block) (reqCount : Nat) : State × Nat × List String :=
  if s.chain.isEmpty then (s, 0, []) else
  let (s', n) := giveLoop (headSeq s) s blocks 0
  if n == 0 then (s', 0, [])
  else (s', n, [s!"bcast:ANNB({headSeq s'})", s!"bcast:GETB({headSeq s'}/{reqCount})"])

/-- AnnounceBlocksMessage.process -/
def announceBlocks (s : State) (maxSeq reqCount : Nat) : List String :=
  if s.chain.isEmpty then [] else
  if headSeq s ≥ maxSeq then [] else [s!"send:GETB({headSeq s}/{reqCount})"]

/-- GetBlocksMessage.process + Visor.GetSignedBlocksSince (reply truncation by size is C23's subject) -/
def getBlocks (s : State) (last req maxResp : Nat) : List Block :=
  if s.chain.isEmpty then [] else
  let ct := min (min req maxResp) (headSeq s - last)
  (s.chain.filter fun b => last < b.seq && b.seq ≤ last + ct)

end Sky.Ledger
