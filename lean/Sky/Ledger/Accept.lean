/-
  Sky.Ledger.Accept — completeness of the non-arbitrating transaction checks: a transaction list with the
  properties that `processTransactions` guarantees of its OUTPUT (in any mode) is accepted unchanged by the
  non-arbitrating `processTransactions` of a node in the same ledger state.  Used for C05: a block the
  publisher creates passes `Blockchain.processBlock` on an independent node holding the same chain.
-/
import Sky.Ledger.Arb
namespace Sky.Ledger
open Sky

/-! ### distinct hashes come out of the double loop -/

theorem ptRow_hashes {arb : Bool} {t : Txn} {us : List Txn} {fl : List Bool} (h : ptRow arb t us = .ok fl) :
    ∀ u ∈ us, (t.hash == u.hash) = false := by
  induction us generalizing fl with
  | nil => intro u hu; cases hu
  | cons u us ih =>
    simp only [ptRow] at h
    split at h
    · cases h
    · rename_i hne
      have hne' : (t.hash == u.hash) = false := by simpa using hne
      split at h
      · split at h
        · split at h
          · cases h
          · rename_i fl' hfl
            intro x hx
            simp only [List.mem_cons] at hx
            rcases hx with rfl | hx
            · exact hne'
            · exact ih hfl x hx
        · cases h
      · split at h
        · cases h
        · rename_i fl' hfl
          intro x hx
          simp only [List.mem_cons] at hx
          rcases hx with rfl | hx
          · exact hne'
          · exact ih hfl x hx

theorem ptLoop2_hashes {arb : Bool} {txns : List Txn} {fl : List Bool} (h : ptLoop2 arb txns = .ok fl) :
    txns.Pairwise (fun a b => (a.hash == b.hash) = false) := by
  induction txns generalizing fl with
  | nil => exact List.Pairwise.nil
  | cons t rest ih =>
    simp only [ptLoop2] at h
    split at h
    · cases h
    · rename_i flags hrow
      split at h
      · cases h
      · rename_i rf hrf
        exact List.Pairwise.cons (ptRow_hashes hrow) (ih hrf)

theorem ptCore_hashes {s : State} {arb : Bool} {v r : List Txn} (h : ptCore s arb v = .ok r) :
    r.Pairwise (fun a b => (a.hash == b.hash) = false) := by
  unfold ptCore at h
  split at h
  · split at h
    · cases h; exact List.Pairwise.nil
    · cases h
  · split at h
    · cases h
    · rename_i kept hk
      split at h
      · cases h
      · rename_i fl hfl
        cases h
        exact (ptLoop2_hashes hfl).sublist (filterMap_flags_sublist kept fl)

theorem processTransactions_hashes {s : State} {txns r : List Txn} (h : processTransactions s txns = .ok r) :
    r.Pairwise (fun a b => (a.hash == b.hash) = false) := by
  unfold processTransactions at h
  split at h
  · cases h
  · split at h
    · split at h
      · cases h
      · exact ptCore_hashes h
    · exact ptCore_hashes h

/-! ### completeness of the non-arbitrating loops -/

theorem ptOuts_complete (s : State) (os : List Out) (seen : List Id)
    (hfresh : ∀ o ∈ os, o.id ∉ seen ∧ contains s.unspent o.id = false) (hnd : (os.map (·.id)).Nodup) :
    ptOuts s false os seen false = .ok ((os.map (·.id)).reverse ++ seen, false) := by
  induction os generalizing seen with
  | nil => simp [ptOuts]
  | cons o os ih =>
    simp only [List.map_cons, List.nodup_cons] at hnd
    obtain ⟨h1, h2⟩ := hfresh o (by simp)
    have c1 : seen.contains o.id = false := by simpa using h1
    simp only [ptOuts, c1, h2, Bool.false_eq_true, if_false]
    rw [ih (o.id :: seen) (by
      intro o' ho'
      obtain ⟨g1, g2⟩ := hfresh o' (by simp [ho'])
      refine ⟨?_, g2⟩
      simp only [List.mem_cons, not_or]
      refine ⟨?_, g1⟩
      intro e
      exact hnd.1 (e ▸ List.mem_map.mpr ⟨o', ho', rfl⟩)) hnd.2]
    simp

theorem ptLoop1_complete (s : State) (l : List Txn) (seen : List Id)
    (hv : ∀ t ∈ l, verifyBlockTxn s t = .ok ()) (hnd : (outIds l).Nodup)
    (hfresh : ∀ x ∈ outIds l, x ∉ seen ∧ contains s.unspent x = false) :
    ptLoop1 s false l seen = .ok l := by
  induction l generalizing seen with
  | nil => simp [ptLoop1]
  | cons t rest ih =>
    simp only [outIds, List.flatMap_cons] at hnd hfresh
    rw [List.nodup_append] at hnd
    obtain ⟨n1, n2, n3⟩ := hnd
    simp only [ptLoop1, hv t (by simp)]
    rw [ptOuts_complete s t.outs seen (by
      intro o ho
      exact hfresh o.id (List.mem_append.mpr (Or.inl (List.mem_map.mpr ⟨o, ho, rfl⟩)))) n1]
    simp only []
    rw [ih ((t.outs.map (·.id)).reverse ++ seen) (fun t' ht' => hv t' (by simp [ht'])) n2 (by
      intro x hx
      obtain ⟨g1, g2⟩ := hfresh x (List.mem_append.mpr (Or.inr hx))
      refine ⟨?_, g2⟩
      simp only [List.mem_append, List.mem_reverse, not_or]
      refine ⟨?_, g1⟩
      intro hx1
      exact n3 x hx1 x hx rfl)]
    simp

theorem ptRow_complete (t : Txn) (us : List Txn)
    (h : ∀ u ∈ us, (t.hash == u.hash) = false ∧ sharesInput t u = false) :
    ptRow false t us = .ok (List.replicate us.length false) := by
  induction us with
  | nil => simp [ptRow]
  | cons u us ih =>
    obtain ⟨h1, h2⟩ := h u (by simp)
    simp only [ptRow, h1, h2, Bool.false_eq_true, if_false]
    rw [ih (fun u' hu' => h u' (by simp [hu']))]
    simp [List.replicate_succ]

theorem zipWith_or_replicate_false (n : Nat) :
    List.zipWith (· || ·) (List.replicate n false) (List.replicate n false) = List.replicate n false := by
  induction n with
  | zero => rfl
  | succ n ih => simp [List.replicate_succ, ih]

theorem ptLoop2_complete (l : List Txn)
    (hh : l.Pairwise (fun a b => (a.hash == b.hash) = false))
    (hs : l.Pairwise (fun a b => sharesInput a b = false)) :
    ptLoop2 false l = .ok (List.replicate l.length false) := by
  induction l with
  | nil => simp [ptLoop2]
  | cons t rest ih =>
    rw [List.pairwise_cons] at hh hs
    simp only [ptLoop2]
    rw [ptRow_complete t rest (fun u hu => ⟨hh.1 u hu, hs.1 u hu⟩)]
    simp only []
    rw [ih hh.2 hs.2]
    simp [List.replicate_succ, zipWith_or_replicate_false]

theorem unflagged_replicate_false (l : List Txn) : unflagged l (List.replicate l.length false) = l := by
  induction l with
  | nil => simp [unflagged]
  | cons a l ih =>
    simp only [List.length_cons, List.replicate_succ, unflagged_cons, Bool.false_eq_true, if_false, ih]

/-- **completeness**: a non-empty list of individually valid transactions with pairwise distinct hashes, no shared
inputs, pairwise distinct fresh output ids is accepted, unchanged, by the non-arbitrating checks -/
theorem ptCore_complete (s : State) (l : List Txn) (hne : l ≠ [])
    (hv : ∀ t ∈ l, verifyBlockTxn s t = .ok ())
    (hh : l.Pairwise (fun a b => (a.hash == b.hash) = false))
    (hs : l.Pairwise (fun a b => sharesInput a b = false))
    (hnd : (outIds l).Nodup) (hfresh : ∀ x ∈ outIds l, contains s.unspent x = false) :
    ptCore s false l = .ok l := by
  unfold ptCore
  have he : l.isEmpty = false := by cases l <;> simp_all
  simp only [he, Bool.false_eq_true, if_false]
  rw [ptLoop1_complete s l [] hv hnd (fun x hx => ⟨by simp, hfresh x hx⟩)]
  simp only []
  rw [ptLoop2_complete l hh hs]
  simp only []
  exact congrArg _ (unflagged_replicate_false l)

/-- the checks only look at the ledger part of the state -/
theorem verifyBlockTxn_congr {s f : State} (h1 : f.unspent = s.unspent) (h2 : f.chain = s.chain) (t : Txn) :
    verifyBlockTxn f t = verifyBlockTxn s t := by
  unfold verifyBlockTxn collides headTime headSeq
  rw [h1, h2]

end Sky.Ledger
