/-
  Ledger driver: replays the harness' op lines on the Lean ledger model and compares, per op, the
  verdict and the whole canonical state digest with what the real node reported.
  On a difference it also says which PROPERTIES' own predicates the implementation's reported state
  violates (suffix ` #props:C01,C02,...` in the model output; empty list = only the correspondence
  is broken, no property predicate fails on this input).
-/
import Sky.Prim.DrvLib
import Sky.Ledger.Model
import Sky.Ledger.HashCheck
namespace Sky.Ledger.Drv
open Sky Sky.Drv Sky.Ledger

/-! ### parsing -/

def kv (s : String) : List (String × String) :=
  (s.splitOn ";").filterMap fun f =>
    match f.splitOn "=" with
    | k :: v :: _ => some (k, v)
    | _ => none

def get (m : List (String × String)) (k : String) : String :=
  match m.find? (·.1 == k) with | some (_, v) => v | none => ""

def listOf (s : String) (sep : String := ",") : List String :=
  if s.isEmpty then [] else s.splitOn sep

def natOf (s : String) : Nat := s.toNat?.getD 0

def hexNat (s : String) : Nat :=
  s.toList.foldl (fun acc c => acc * 16 + (hexDigit? c).getD 0) 0

def parseTxn (sec : String) : Txn :=
  let m := kv (sec.drop 1).toString
  let sn := listOf (get m "sn")
  let cid := listOf (get m "cid")
  let outs := (listOf (get m "out")).zipIdx.map fun (o, i) =>
    match o.splitOn ":" with
    | [a, c, h, id] => ({ addr := a, coins := natOf c, hours := natOf h, id := id,
                          snap := hexNat (sn.getD i "0"), cid := cid.getD i id } : Out)
    | _ => default
  { hash := get m "h", wf := get m "wf", size := (get m "sz").toNat?,
    ins := listOf (get m "in"), sgs := listOf (get m "sg"), outs := outs }

def parseBlock (sec : String) (txns : List Txn) : Block :=
  let m := kv (sec.drop 1).toString
  { seq := natOf (get m "seq"), time := natOf (get m "time"), fee := natOf (get m "fee"),
    ver := natOf (get m "ver"), prev := get m "prev", body := get m "body", uxh := get m "ux",
    hh := get m "hh", cb := get m "cb", sig := get m "sig" == "1", txns := txns }

/-! ### rendering the digest exactly as harness/ledger/world.go does -/

def insertS (x : String) : List String → List String
  | [] => [x]
  | y :: ys => if x < y then x :: y :: ys else y :: insertS x ys
def sortS (xs : List String) : List String := xs.foldr insertS []
def joinSorted (xs : List String) (sep : String) : String := sep.intercalate (sortS xs)

def b2s (b : Bool) : String := if b then "1" else "0"

def digest (s : State) : String :=
  let head := match s.chain.getLast? with
    | some b => s!"{b.seq}:{b.hh}:{b.time}"
    | none => "-"
  let chain := ",".intercalate (s.chain.map fun b =>
    s!"{b.seq}:{b.hh}:{b.prev}:{b.cb}:{b2s b.sig}:{"+".intercalate (b.txns.map (·.hash))}")
  let ux := joinSorted (s.unspent.map fun u => s!"{u.id}:{u.addr}:{u.coins}:{u.hours}:{u.time}:{u.seq}:{u.src}") ","
  let ai := joinSorted (s.aidx.map fun (a, l) => a ++ ":" ++ joinSorted l "+") ","
  let pool := joinSorted (s.pool.map fun e => e.txn.hash ++ ":" ++ b2s e.valid) ","
  let pu := joinSorted (s.pool.map fun e => e.txn.hash) ","
  let hp := match s.hparsed with | some n => toString n | none => "-"
  let ho := joinSorted (s.houts.map fun o =>
    let sp := match o.spent with | some (q, t) => s!"{q}/{t}" | none => "-"
    s!"{o.id}:{o.addr}:{o.coins}:{sp}") ","
  let ht := joinSorted (s.htxns.map fun (h, q) => s!"{h}:{q}") ","
  let hau := joinSorted (s.haddrUx.map fun (a, l) => a ++ ":" ++ joinSorted l "+") ","
  let hat := joinSorted (s.haddrTxns.map fun (a, l) => a ++ ":" ++ joinSorted l "+") ","
  let bal := if s.chain.isEmpty then "err" else match balances s ["a0", "a1", "a2", "a3", "a4", "a5", "a6", "a7"] with
    | .error _ => "err"
    | .ok l => ",".intercalate (l.map fun (a, b) => s!"{a}:{b.cc}/{b.ch}/{b.pc}/{b.ph}")
  s!"Dhead={head};len={s.chain.length};chain={chain};ux={ux};xor={hex16 s.xor};ai={ai};ac={s.aidx.length};pool={pool};pu={pu};hp={hp};ho={ho};ht={ht};hau={hau};hat={hat};bal={bal};vbq={if headSeq s < 2 then "-" else "ok"}"

/-! ### driver state -/

structure W where
  p : State
  f : State
  gc : Nat := 0
  made : Option (String × String) := none   -- (hash of the last publisher-made block, head it was built on)
  r : State := { cfg := default }            -- C08: node restarted from a crash state
  snaps : List State := []                   -- C08: F's state at every commit boundary
  genesis : State := { cfg := default }      -- C08: F's state right after the genesis commit
  c8 : Bool := false
deriving Inhabited

def emptyCfg : Cfg := { arb := false, unconfirmed := ⟨2, 0, 0⟩, create := ⟨2, 0, 0⟩, user := ⟨2, 0, 0⟩, maxBlock := 0, locked := [] }

def getNode (w : W) (n : String) : State := if n == "P" then w.p else if n == "R" then w.r else w.f
def setNode (w : W) (n : String) (s : State) : W :=
  if n == "P" then { w with p := s } else if n == "R" then { w with r := s } else { w with f := s }

def code (r : R α) : String := match r with | .ok _ => "ok" | .error e => e

/-- sections of the implementation's answer -/
def sections (impl : String) : List String := impl.splitOn " "
def annPrefix (secs : List String) : List String := secs.takeWhile fun s => !(s.startsWith "R")
def txnSecs (secs : List String) : List String := secs.filter (·.startsWith "T")
def implResult (secs : List String) : String := ((secs.find? (·.startsWith "R")).getD "R?").drop 1 |>.toString
def implDigests (secs : List String) : List String := secs.filter (·.startsWith "D")

/-- property predicates evaluated on the IMPLEMENTATION's reported digest -/
def sumCoinsOfDigest (d : String) : Nat :=
  let m := kv (d.drop 1).toString
  (listOf (get m "ux")).foldl (fun acc e => match e.splitOn ":" with
    | _ :: _ :: c :: _ => acc + natOf c | _ => acc) 0

def field (d : String) (k : String) : String := get (kv (d.drop 1).toString) k

def propsViolated (w : W) (implD modelD : String) (implRes modelRes : String) : List String :=
  let c01 := if sumCoinsOfDigest implD != w.gc then ["C01"] else []
  let c02 := if field implD "ux" != field modelD "ux" then ["C02"] else []
  let c04 := if field implD "chain" != field modelD "chain" || (implRes == "ok") != (modelRes == "ok") then ["C04"] else []
  let c06 := if field implD "pool" != field modelD "pool" || field implD "pu" != field modelD "pu" then ["C06"] else []
  let c07 := if ["xor", "ai", "ac", "ho", "ht", "hau", "hat", "hp", "bal", "vbq"].any (fun k => field implD k != field modelD k) then ["C07"] else []
  let c33 := if field implD "chain" != field modelD "chain" then ["C33"] else []
  c01 ++ c02 ++ c04 ++ c06 ++ c07 ++ c33

/-- tags for differences between the annotations (values derived by the real code) and the same values
recomputed from the raw bytes by the Lean codec + SHA-256 (`HashCheck`) -/
def hashTags (errs : List String) : List String :=
  errs.eraseDups.flatMap fun e =>
    if e == "header-fields" || e == "header-hash-fields" || e == "header-hash" || e == "body-hash" || e == "txn-count"
      then ["C04[hash:" ++ e ++ "]"]
    else if e == "snapshot-hash" then ["C07[hash:" ++ e ++ "]", "C02[hash:" ++ e ++ "]"]
    else ["C02[hash:" ++ e ++ "]"]

/-- `extra`: property predicates that are evaluated on the implementation's behaviour even when it agrees
with the model (C03: hours created by an accepted block) -/
def finish (w : W) (impl expected : String) (implD modelD implRes modelRes : String)
    (extra : List String := []) : String × Verdict :=
  if expected == impl && extra.isEmpty then (impl, .hold)
  else
    let ps := (if expected == impl then [] else propsViolated w implD modelD implRes modelRes) ++ extra
    (expected ++ " #props:" ++ ",".intercalate ps, if ps.isEmpty then .unknown else .fail)

/-- C03 on an ACCEPTED block: output hours (summed in ℕ) must not exceed the hours the inputs accrued at
the previous block's time (legacy exception counted as zero).  Tags: `C03[outhours-wrap]` when the ℕ sum
leaves 64 bits (the unchecked `+=` of VerifyTransactionHoursSpending — known finding F14),
`C03[hours-created]` for any other creation of hours. -/
def c03Block (s : State) (b : Block) : List String :=
  b.txns.foldl (fun acc t =>
    if s.chain.isEmpty then acc else
    let nat := (t.outs.map (·.hours)).foldl (· + ·) 0
    match getArray s.unspent t.ins with
    | .error _ => acc
    | .ok uxIn =>
      match hoursInLegacy (headTime s) uxIn 0 with
      | .error _ =>
        -- the hours the inputs accrued overflow 64 bits (and it is not the documented legacy exception):
        -- nothing can be said to have been "accrued", the spend must be refused
        if acc.contains "C03[input-hours-overflow-accepted]" then acc else acc ++ ["C03[input-hours-overflow-accepted]"]
      | .ok hin =>
        if nat ≥ 2^64 then (if acc.contains "C03[outhours-wrap]" then acc else acc ++ ["C03[outhours-wrap]"])
        else if nat > hin then acc ++ ["C03[hours-created]"] else acc) []

def step1 (w : W) (op impl : String) : W × String × Verdict :=
  let secs := sections impl
  let pre := " ".intercalate (annPrefix secs)
  let pre' := if pre.isEmpty then "" else pre ++ " "
  let implRes := implResult secs
  let implDs := implDigests secs
  match op.splitOn " " with
  | ["c8fork", k, _] =>
    -- every crash state at boundary k (the boundary file itself, or that file plus any prefix of the next
    -- commit's page writes, torn meta page included) must open as the state after k commits;
    -- visor.New + Init then create the genesis block if missing and remove invalid pool entries
    let base := w.snaps.getD (natOf k) w.genesis
    let s' := if base.chain.isEmpty then w.genesis else restart base
    let w' := { w with r := s' }
    let expected := "Rok Cok " ++ digest s'
    -- C08: the crash state must open, pass the node's own verification in bounded time, and equal the
    -- state after k commits
    let implC := ((secs.find? (·.startsWith "C")).getD "C?").drop 1 |>.toString
    let extra := if implRes == "hang" then ["C08[verification-hangs]"]
      else if implRes != "ok" then ["C08[restart-fails]"]
      else if implC != "ok" then ["C08[verification-fails]"]
      else if expected != impl then ["C08[crash-state-differs]"] else []
    let (m, v) := finish w' impl expected (implDs.getD 0 "") (digest s') implRes "ok" extra
    (w', m, v)
  | ["c8rebuild", _, _, _] =>
    -- a start-up that rebuilds derived data, crashed at any of its commit boundaries: the restarted node must come
    -- up, verify, hold exactly the never-crashed node's data (C07 `rebuild_from_blocks_same`: that data is a
    -- function of the stored chain) and accept the next block
    if implRes.startsWith "ok" then (w, impl, .hold)
    else (w, "Rok #props:C08[crash-during-startup-rebuild]", .fail)
  | ["c8same"] =>
    let expected := "Rok " ++ digest w.r ++ " " ++ digest w.f
    let same := implDs.getD 0 "a" == implDs.getD 1 "b"
    if expected == impl && same then (w, impl, .hold)
    else (w, expected ++ " #props:" ++ (if same then "" else "C08[restarted-node-diverges]"), if same then .unknown else .fail)
  | "reset" :: args =>
    let m := args.filterMap fun a => match a.splitOn "=" with | [k, v] => some (k, natOf v) | _ => none
    let g (k : String) : Nat := match m.find? (·.1 == k) with | some (_, v) => v | none => 0
    let vp : VParams := ⟨g "burn", g "maxtxn", g "prec"⟩
    let up : VParams := ⟨g "ubf", g "umax", g "uprec"⟩
    let has (k : String) : Bool := (m.find? (·.1 == k)).isSome
    let cp : VParams := ⟨if has "cbf" then g "cbf" else g "burn", if has "cmax" then g "cmax" else g "maxtxn",
      if has "cprec" then g "cprec" else g "prec"⟩
    let cfgP : Cfg := { arb := true, unconfirmed := vp, create := cp, user := up, maxBlock := g "maxblk", locked := ["a6", "a7"] }
    let cfgF : Cfg := { cfgP with arb := g "arbF" == 1 }
    let txns := (txnSecs secs).map parseTxn
    let bsec := (secs.find? (·.startsWith "B")).getD "B"
    let gb := parseBlock bsec txns
    let rp := execSigned { cfg := cfgP } gb
    let rf := execSigned { cfg := cfgF } gb
    (match rp, rf with
     | .ok sp, .ok sf =>
       let w' : W := { p := sp, f := sf, gc := g "gc" }
       let expected := pre' ++ "Rok " ++ digest sp ++ " " ++ digest sf
       let (m, v) := finish w' impl expected (implDs.getD 1 "") (digest sf) implRes "ok"
       (w', m, v)
     | _, _ => (w, pre' ++ "R" ++ code rp ++ "/" ++ code rf, .unknown))
  | ["exec", n, hex] =>
    let s := getNode w n
    let txns := (txnSecs secs).map parseTxn
    let bsec := (secs.find? (·.startsWith "B")).getD "B"
    let b := parseBlock bsec txns
    let hc := hashTags (HashCheck.checkBlockHex hex b)
    let r := execSigned s b
    let s' := match r with | .ok s' => s' | .error _ => s
    let w' := setNode w n s'
    -- WHICH check refuses a block is not part of any property (only that it is refused and leaves no trace):
    -- two different refusal reasons count as agreement, so a reordering of independent checks is not an alarm
    let rcode := if implRes != "ok" && code r != "ok" then implRes else code r
    let expected := pre' ++ "R" ++ rcode ++ " " ++ digest s'
    -- C05: a block the publisher just made must be accepted by any node holding the same chain
    let headHh := (s.chain.getLast?.map (·.hh)).getD ""
    let c05 := match w.made with
      | some (mh, onHead) => if mh == b.hh && b.sig && b.cb == b.body && onHead == headHh && implRes != "ok" then ["C05[made-block-rejected]"] else []
      | none => []
    let extra := (if implRes == "ok" then c03Block s b else []) ++ c05 ++ hc
    let (m, v) := finish w' impl expected (implDs.getD 0 "") (digest s') implRes (code r) extra
    (w', m, v)
  | ["execfault", n, _] =>
    -- an execution that fails after the unspent pool has processed the block (injected fault: HistoryDB.ParseBlock
    -- fails) is rolled back as a whole: the block is refused and nothing the node reports has changed
    let s := getNode w n
    let rcode := if implRes == "ok" then "refused" else implRes
    let expected := "R" ++ rcode ++ " " ++ digest s
    let (m, v) := finish w impl expected (implDs.getD 0 "") (digest s) implRes rcode
    (w, m, v)
  | ["give", n, hexes] =>
    let s := getNode w n
    -- blocks are separated by the token `|`
    let resIdx := (secs.findIdx? (·.startsWith "R")).getD secs.length
    let before := (secs.take resIdx).drop 1
    let groups := (" ".intercalate before).splitOn " | "
    let blocks := groups.filterMap fun g =>
      let gs := g.splitOn " "
      match gs.find? (·.startsWith "B") with
      | some bsec => some (parseBlock bsec ((gs.filter (·.startsWith "T")).map parseTxn))
      | none => none
    let (s', cnt, msgs) := giveBlocks s blocks 20
    let w' := setNode w n s'
    let expected := " ".intercalate (secs.take resIdx) ++ s!" R{cnt} M" ++ ",".intercalate msgs ++ " " ++ digest s'
    -- C33: the node must keep requesting the blocks above its (new) head
    let implM := (secs.find? (·.startsWith "M")).getD "M"
    let hexList := if hexes == "-" then [] else hexes.splitOn ","
    let hc := hashTags ((hexList.zip blocks).flatMap fun (hx, b) => HashCheck.checkBlockHex hx b)
    let extra := (if implM != "M" ++ ",".intercalate msgs then ["C33[requests]"] else []) ++ hc
    let (m, v) := finish w' impl expected (implDs.getD 0 "") (digest s') implRes (toString cnt) extra
    (w', m, v)
  | ["announce", n, k] =>
    let s := getNode w n
    let expected := "Rok M" ++ ",".intercalate (announceBlocks s (natOf k) 20)
    let (m, v) := finish w impl expected "" "" implRes "ok" (if expected == impl then [] else ["C33[requests]"])
    (w, m, v)
  | ["getblocks", n, last, req] =>
    let s := getNode w n
    let bs := getBlocks s (natOf last) (natOf req) 5
    let msg := if bs.isEmpty then "" else "send:GIVB(" ++ "+".intercalate (bs.map fun b => s!"{b.seq}:{b.hh}") ++ ")"
    let expected := "Rok M" ++ msg ++ " H" ++ last
    let (m, v) := finish w impl expected "" "" implRes "ok"
    (w, m, if v matches .hold then .hold else .fail)
  | ["getblocksw", n, last, req, maxlen] =>
    -- serving under an outgoing-message limit: what is sent must be a prefix of the blocks asked for and its
    -- frame must fit the limit (gnet refuses longer frames, and the requester asks again from the same head);
    -- how long the prefix has to be is C23's statement (sizes are not part of this model)
    let s := getNode w n
    let full := (getBlocks s (natOf last) (natOf req) 5).map fun b => s!"{b.seq}:{b.hh}"
    let body := (((impl.splitOn "Rok M").getD 1 "").splitOn " H").getD 0 ""
    let inner := ((body.splitOn "GIVB(").getD 1 "").splitOn ")[len="
    let blocksStr := inner.getD 0 ""
    let lenStr := ((inner.getD 1 "").splitOn "]").getD 0 ""
    let implBlocks := if blocksStr == "" then [] else blocksStr.splitOn "+"
    let good :=
      if body == "" then true   -- nothing sent (nothing to send, or not even the first block fits)
      -- (an EMPTY GiveBlocksMessage is what the code sends when not even the first block fits the limit)
      else implBlocks.isPrefixOf full &&
        (match lenStr.toNat? with | some l => l ≤ natOf maxlen | none => false)
    if good then (w, impl, .hold)
    else (w, "Rok Msend:GIVB(<prefix of " ++ "+".intercalate full ++ ">)[len<=" ++ maxlen ++ "] H" ++ last ++
          " #props:C33[reply-does-not-fit-the-wire]", .fail)
  | ["rebuild", n, _] =>
    -- rebuilding history / the address index from the stored chain and unspent set yields exactly the
    -- incrementally maintained data (C07 "rebuild"), then the restart removes invalid pool entries
    let s := getNode w n
    let s' := restart s
    let w' := setNode w n s'
    let expected := "Rok " ++ digest s'
    -- a node that cannot start on its own (rebuildable) database violates C08; rebuilt data that
    -- differs from the incrementally maintained data violates C07
    let extra := if implRes != "ok" then ["C08[restart-fails]", "C07[rebuild-fails]"] else []
    let (m, v) := finish w' impl expected (implDs.getD 0 "") (digest s') implRes "ok" extra
    (w', m, v)
  | [inj, n, hex] =>
    if inj == "injf" || inj == "inju" then
      let s := getNode w n
      let t := parseTxn ((txnSecs secs).getD 0 "T")
      let hc := hashTags (HashCheck.checkTxnHex hex t)
      let (res, known, s') :=
        if inj == "injf" then
          match injectForeign s t with
          | .ok (k, se, s') => ((match se with | some e => "ok-" ++ e | none => "ok"), k, s')
          | .error e => (e, false, s)
        else
          match injectUser s t with
          | .ok (k, s') => ("ok", k, s')
          | .error e => (e, false, s)
      let w' := setNode w n s'
      let expected := pre' ++ "R" ++ res ++ " K" ++ toString known ++ " " ++ digest s'
      let (m, v) := finish w' impl expected (implDs.getD 0 "") (digest s') implRes res hc
      (w', m, v)
    else (w, "bad-op", .unknown)
  | [o, n] =>
    let s := getNode w n
    if o == "refresh" || o == "rminv" then
      let (hs, s') := if o == "refresh" then refresh s else removeInvalid s
      let w' := setNode w n s'
      let expected := "Rok V" ++ joinSorted hs "," ++ " " ++ digest s'
      let (m, v) := finish w' impl expected (implDs.getD 0 "") (digest s') implRes "ok"
      (w', m, v)
    else if o == "checkdb" then
      -- theorem checkDB_after_run: the node's own verification accepts every reachable state
      let (m, v) := finish w impl "Rok" "" "" implRes "ok"
      (w, m, if v matches .hold then .hold else .fail)
    else if o == "restart" then
      -- visor.New + Init: buckets exist, indexes/history are current (no-ops), genesis exists,
      -- then RemoveInvalid on the pool
      let s' := restart s
      let w' := setNode w n s'
      let expected := "Rok " ++ digest s'
      let extra := if implRes != "ok" then ["C08[restart-fails]"] else []
      let (m, v) := finish w' impl expected (implDs.getD 0 "") (digest s') implRes "ok" extra
      (w', m, v)
    else if o == "mkblock" then
      -- n is the block time; always on the publisher
      let when_ := natOf n
      let s := w.p
      let resIdx := (secs.findIdx? (·.startsWith "R")).getD secs.length
      let before := secs.take resIdx
      let after := secs.drop (resIdx + 1)
      let poolTxns := (before.filter (·.startsWith "T")).map parseTxn
      let r := createBlock s poolTxns when_
      match r with
      | .error e =>
        let expected := " ".intercalate before ++ " R" ++ e
        let (m, v) := finish w impl expected "" "" implRes e
        (w, m, if v matches .hold then .hold else .unknown)
      | .ok (txns, fee) =>
        -- compare what the model can compute: transaction list and order, fee, seq, time, parent, ux hash
        let bsec := (after.find? (·.startsWith "B")).getD "B"
        let b := parseBlock bsec ((after.filter (·.startsWith "T")).map parseTxn)
        let head := s.chain.getLast?.getD default
        let same := implRes == "ok" && b.txns.map (·.hash) == txns.map (·.hash) && b.fee == fee && b.seq == head.seq + 1
          && b.time == when_ && b.prev == head.hh && b.uxh == hex16 s.xor && b.body == b.cb && b.sig
        -- C05 conflict rule on the node's own block: of two conflicting candidates exactly the earlier one
        -- (fee/kB desc, hash asc) is included.  Known exception (finding F36): the earlier one was itself
        -- dropped because it conflicts with a still earlier candidate - then BOTH are left out.
        let cand : List Txn :=
          let filtered := poolTxns.filter fun t => match verifySingleSoftHard s t s.cfg.create with | .ok _ => true | .error _ => false
          match sortTransactions s filtered with
          | .ok sorted => (truncateBytesTo sorted s.cfg.maxBlock).take 65535
          | .error _ => []
        let inBlock (t : Txn) : Bool := b.txns.any (·.hash == t.hash)
        let rec pairs (l : List Txn) (earlier : List Txn) : List String :=
          match l with
          | [] => []
          | a :: rest =>
            let bad := rest.filterMap fun c =>
              if sharesInput a c then
                if inBlock a && !inBlock c then none
                else if earlier.any (fun x => sharesInput x a) then some "C05[conflict-chain]"
                else some "C05[conflict-winner]"
              else none
            bad ++ pairs rest (earlier ++ [a])
        let conflictTags := (pairs cand []).eraseDups
        -- C05 predicates on the node's own block: size limit, every transaction individually valid
        let sizeSum := b.txns.foldl (fun a t => a + t.size.getD 0) 0
        let bad := b.txns.any fun t => match verifySingleSoftHard s t s.cfg.create with | .ok _ => false | .error _ => true
        let w' := { w with made := some (b.hh, head.hh) }
        if same && sizeSum ≤ s.cfg.maxBlock && !bad && conflictTags.isEmpty then (w', impl, .hold)
        else if same && sizeSum ≤ s.cfg.maxBlock && !bad then
          (w', impl ++ " #props:" ++ ",".intercalate conflictTags, .fail)
        else (w', " ".intercalate before ++ " Rok txns=" ++ "+".intercalate (txns.map (·.hash)) ++ s!" fee={fee} size={sizeSum} #props:C05" ++ (if conflictTags.isEmpty then "" else "," ++ ",".intercalate conflictTags), .fail)
    else (w, "bad-op", .unknown)
  | _ => (w, "bad-op", .unknown)

/-- C08 bookkeeping: in crash mode the harness appends ` S<n>` (number of commit-boundary snapshots of F
so far); it is stripped before the comparison and used to record F's state per boundary: an operation's
intermediate commits (CreateBuckets / index+history initialisation inside a restart) do not change the
logical state, its last commit yields the state after the operation. -/
def step (w : W) (op impl : String) : W × String × Verdict :=
  let secs := impl.splitOn " "
  match secs.getLast? with
  | some last =>
    if last.startsWith "S" && (last.drop 1).toString.toNat?.isSome then
      let n := natOf (last.drop 1).toString
      let impl' := " ".intercalate secs.dropLast
      let before := w.f
      let isBegin := op.startsWith "c8begin"
      let op1 := if isBegin then "reset" ++ (op.drop 7).toString else op
      let (w1, m, v) := step1 w op1 impl'
      let w' := if isBegin then { w1 with c8 := true, genesis := w1.f, snaps := [] } else w1
      let missing := n - w'.snaps.length
      let snaps := if missing == 0 then w'.snaps
        else if isBegin then List.replicate (missing - 1) ({ cfg := w'.f.cfg } : State) ++ [w'.f]
        else w'.snaps ++ List.replicate (missing - 1) before ++ [w'.f]
      let m' := if m == impl' then impl else m
      ({ w' with snaps := snaps }, m', v)
    else step1 w op impl
  | none => step1 w op impl

end Sky.Ledger.Drv

def main : IO Unit :=
  Sky.Drv.loop (σ := Sky.Ledger.Drv.W) Sky.Ledger.Drv.step { p := { cfg := Sky.Ledger.Drv.emptyCfg }, f := { cfg := Sky.Ledger.Drv.emptyCfg } }
