/-
  Sky.Ledger.Replay — every derived structure (unspent set, checksum, address index and its height, the
  whole history: outputs with their spenders, transaction→block, address→outputs, address→transactions) is a
  function of the accepted chain alone: replaying the stored blocks from an empty database yields exactly the
  data the node holds (C07, "rebuilding the indexes and history from the stored blocks yields exactly the same
  data").
-/
import Sky.Ledger.Run
namespace Sky.Ledger
open Sky

/-- all data derived from the chain -/
def DerivedEq (a b : State) : Prop :=
  a.unspent = b.unspent ∧ a.xor = b.xor ∧ a.aidx = b.aidx ∧ a.aih = b.aih ∧ a.hparsed = b.hparsed ∧
    a.houts = b.houts ∧ a.htxns = b.htxns ∧ a.haddrUx = b.haddrUx ∧ a.haddrTxns = b.haddrTxns

theorem DerivedEq.refl (a : State) : DerivedEq a a := ⟨rfl, rfl, rfl, rfl, rfl, rfl, rfl, rfl, rfl⟩
theorem DerivedEq.symm {a b : State} (h : DerivedEq a b) : DerivedEq b a := by
  obtain ⟨h1, h2, h3, h4, h5, h6, h7, h8, h9⟩ := h
  exact ⟨h1.symm, h2.symm, h3.symm, h4.symm, h5.symm, h6.symm, h7.symm, h8.symm, h9.symm⟩
theorem DerivedEq.trans {a b c : State} (h : DerivedEq a b) (g : DerivedEq b c) : DerivedEq a c := by
  obtain ⟨h1, h2, h3, h4, h5, h6, h7, h8, h9⟩ := h
  obtain ⟨g1, g2, g3, g4, g5, g6, g7, g8, g9⟩ := g
  exact ⟨h1.trans g1, h2.trans g2, h3.trans g3, h4.trans g4, h5.trans g5, h6.trans g6, h7.trans g7,
    h8.trans g8, h9.trans g9⟩

/-- two results agree: both fail the same way, or both succeed with the same derived data -/
def RDerivedEq : R State → R State → Prop
  | .ok a, .ok b => DerivedEq a b
  | .error e, .error e' => e = e'
  | _, _ => False

/-- what one stored block contributes to the derived data (Unspents.ProcessBlock then HistoryDB.ParseBlock) -/
def deriveStep (d : State) (b : Block) : R State := do
  let s1 ← unspentProcessBlock d b
  parseBlock s1 b

/-- replay of stored blocks, oldest first -/
def replayFrom (d : State) : List Block → R State
  | [] => .ok d
  | b :: rest => match deriveStep d b with
    | .error e => .error e
    | .ok d' => replayFrom d' rest

theorem replayFrom_append (d : State) (l : List Block) (b : Block) :
    replayFrom d (l ++ [b]) = (match replayFrom d l with | .error e => .error e | .ok d' => deriveStep d' b) := by
  induction l generalizing d with
  | nil => simp only [List.nil_append, replayFrom]; cases deriveStep d b <;> rfl
  | cons x xs ih =>
    simp only [List.cons_append, replayFrom]
    cases deriveStep d x with
    | error e => rfl
    | ok d' => exact ih d'

theorem RDerivedEq.refl_of_ok {a b : State} (h : DerivedEq a b) : RDerivedEq (.ok a) (.ok b) := h

theorem unspentProcessBlock_congr {a b : State} (h : DerivedEq a b) (blk : Block) :
    RDerivedEq (unspentProcessBlock a blk) (unspentProcessBlock b blk) := by
  obtain ⟨h1, h2, h3, h4, h5, h6, h7, h8, h9⟩ := h
  unfold unspentProcessBlock
  simp only [bind, Except.bind, h1, h2, h3, h4]
  cases getArray b.unspent (List.flatMap (fun x => x.ins) blk.txns) with
  | error e => exact rfl
  | ok spent =>
    simp only []
    split
    · exact rfl
    · split
      · exact rfl
      · split
        · exact rfl
        · split
          · split
            · exact rfl
            · exact ⟨rfl, rfl, rfl, rfl, h5, h6, h7, h8, h9⟩
          · split
            · exact rfl
            · exact ⟨rfl, rfl, rfl, rfl, h5, h6, h7, h8, h9⟩

theorem parseTxn_congr {a b : State} (h : DerivedEq a b) (seq : Nat) (created : List Ux) (t : Txn) :
    RDerivedEq (parseTxn seq created a t) (parseTxn seq created b t) := by
  obtain ⟨h1, h2, h3, h4, h5, h6, h7, h8, h9⟩ := h
  unfold parseTxn
  simp only [bind, Except.bind, h6, h7, h8, h9]
  split
  · exact rfl
  · exact ⟨h1, h2, h3, h4, h5, rfl, rfl, rfl, rfl⟩

theorem foldlM_parseTxn_congr (seq time : Nat) (txns : List Txn) {a b : State} (h : DerivedEq a b) :
    RDerivedEq (txns.foldlM (fun st t => parseTxn seq (createUnspents time seq t) st t) a)
      (txns.foldlM (fun st t => parseTxn seq (createUnspents time seq t) st t) b) := by
  induction txns generalizing a b with
  | nil => exact h
  | cons t rest ih =>
    simp only [List.foldlM_cons, bind, Except.bind]
    have := parseTxn_congr h seq (createUnspents time seq t) t
    revert this
    cases parseTxn seq (createUnspents time seq t) a t <;> cases parseTxn seq (createUnspents time seq t) b t
    · intro h'; exact h'
    · intro h'; exact h'.elim
    · intro h'; exact h'.elim
    · intro h'; exact ih h'

theorem parseBlock_congr {a b : State} (h : DerivedEq a b) (blk : Block) :
    RDerivedEq (parseBlock a blk) (parseBlock b blk) := by
  unfold parseBlock
  simp only [bind, Except.bind]
  have := foldlM_parseTxn_congr blk.seq blk.time blk.txns h
  revert this
  cases List.foldlM (fun st t => parseTxn blk.seq (createUnspents blk.time blk.seq t) st t) a blk.txns <;>
    cases List.foldlM (fun st t => parseTxn blk.seq (createUnspents blk.time blk.seq t) st t) b blk.txns
  · intro h'; exact h'
  · intro h'; exact h'.elim
  · intro h'; exact h'.elim
  · intro h'
    obtain ⟨h1, h2, h3, h4, h5, h6, h7, h8, h9⟩ := h'
    exact ⟨h1, h2, h3, h4, rfl, h6, h7, h8, h9⟩

theorem deriveStep_congr {a b : State} (h : DerivedEq a b) (blk : Block) :
    RDerivedEq (deriveStep a blk) (deriveStep b blk) := by
  unfold deriveStep
  simp only [bind, Except.bind]
  have := unspentProcessBlock_congr h blk
  revert this
  cases unspentProcessBlock a blk <;> cases unspentProcessBlock b blk
  · intro h'; exact h'
  · intro h'; exact h'.elim
  · intro h'; exact h'.elim
  · intro h'; exact parseBlock_congr h' blk

/-- an accepted block changes the derived data exactly by `deriveStep` -/
theorem exec_is_deriveStep {s s' : State} {b : Block} (h : execSigned s b = .ok s') :
    RDerivedEq (deriveStep s b) (.ok s') := by
  unfold execSigned at h
  simp only [bind, Except.bind] at h
  split at h
  · cases h
  · split at h
    · cases h
    · split at h
      · cases h
      · split at h
        · cases h
        · split at h
          · cases h
          · rename_i s1 hs1
            unfold deriveStep
            simp only [bind, Except.bind, hs1]
            have hc := parseBlock_congr (a := s1)
              (b := { s1 with chain := s1.chain ++ [b],
                              pool := s1.pool.filter (fun e => !(b.txns.map (·.hash)).contains e.txn.hash) })
              ⟨rfl, rfl, rfl, rfl, rfl, rfl, rfl, rfl, rfl⟩ b
            rw [h] at hc
            exact hc

theorem RDerivedEq.trans {x y z : R State} (h : RDerivedEq x y) (g : RDerivedEq y z) : RDerivedEq x z := by
  cases x <;> cases y <;> cases z <;> simp only [RDerivedEq] at h g ⊢
  · exact h.trans g
  · exact DerivedEq.trans h g

/-- the empty database -/
def emptyDb (cfg : Cfg) : State := { cfg := cfg }

/-- the node's derived data equal the replay of its stored chain from the empty database -/
def Replayed (s : State) : Prop := RDerivedEq (replayFrom (emptyDb s.cfg) s.chain) (.ok s)

theorem replayed_empty (cfg : Cfg) : Replayed (emptyDb cfg) := DerivedEq.refl _

theorem exec_preserves_replayed {s s' : State} {b : Block} (hr : Replayed s) (h : execSigned s b = .ok s') :
    Replayed s' := by
  obtain ⟨hc, hcfg⟩ := exec_chain h
  unfold Replayed at *
  rw [hc, hcfg, replayFrom_append]
  revert hr
  cases replayFrom (emptyDb s.cfg) s.chain with
  | error e => intro hr; exact hr.elim
  | ok d =>
    intro hr
    exact RDerivedEq.trans (deriveStep_congr hr b) (exec_is_deriveStep h)

/-- **C07 (rebuild)**: after every history that starts from the empty database, replaying the stored blocks
from an empty database succeeds and yields exactly the node's unspent set, checksum, address index and
height, and the whole history. -/
theorem replayed_after_run (s0 : State) (ops : List Op) (h0 : Replayed s0) : Replayed (run s0 ops) := by
  apply run_induction Replayed ops (fun _ => True)
  · intro s s' hs hr
    obtain ⟨a1, a2, a3, a4, a5, a6, a7, a8, a9, a10, a11⟩ := hs
    unfold Replayed at *
    rw [a2, a4]
    exact RDerivedEq.trans hr (show RDerivedEq (.ok s) (.ok s') from
      ⟨a1.symm, a3.symm, a5.symm, a6.symm, a7.symm, a8.symm, a9.symm, a10.symm, a11.symm⟩)
  · intro s s' b hr _ he
    exact exec_preserves_replayed hr he
  · exact h0
  · intro _ _; trivial

end Sky.Ledger
