/-
  Sky.Ledger.Lemmas — helper lemmas about the ledger model (core Lean only).
-/
import Sky.Ledger.Model
namespace Sky.Ledger
open Sky

/-! ### checked sums -/

theorem sumFrom?_some (xs : List Nat) (acc n : Nat) (h : sumFrom? xs acc = some n) :
    n = acc + xs.sum ∧ n < 2^64 ∨ (xs = [] ∧ n = acc) := by
  induction xs generalizing acc with
  | nil => simp [sumFrom?] at h; right; exact ⟨rfl, h.symm⟩
  | cons x xs ih =>
    simp only [sumFrom?, addU64?] at h
    split at h
    · rename_i a ha
      split at ha
      · cases ha
        rcases ih _ h with ⟨h1, h2⟩ | ⟨h1, h2⟩
        · left; simp only [List.sum_cons]; omega
        · left; subst h1; simp only [List.sum_cons, List.sum_nil]; omega
      · cases ha
    · cases h

theorem sumU64?_some (xs : List Nat) (n : Nat) (h : sumU64? xs = some n) : n = xs.sum := by
  unfold sumU64? at h
  rcases sumFrom?_some xs 0 n h with ⟨h1, _⟩ | ⟨h1, h2⟩
  · omega
  · subst h1; simp [h2]

theorem sumU64?_lt (xs : List Nat) (n : Nat) (h : sumU64? xs = some n) (hne : xs ≠ []) : n < 2^64 := by
  unfold sumU64? at h
  rcases sumFrom?_some xs 0 n h with ⟨_, h2⟩ | ⟨h1, _⟩
  · exact h2
  · exact absurd h1 hne

/-! ### getArray -/

theorem findUx_some {us : List Ux} {id : Id} {u : Ux} (h : findUx us id = some u) : u ∈ us ∧ u.id = id := by
  unfold findUx at h
  have h1 := List.mem_of_find?_eq_some h
  have h2 := List.find?_some h
  exact ⟨h1, by simpa using h2⟩

theorem getArray_ok {us : List Ux} {ids : List Id} {l : List Ux} (h : getArray us ids = .ok l) :
    l.map (·.id) = ids ∧ ∀ u ∈ l, u ∈ us := by
  induction ids generalizing l with
  | nil => simp [getArray] at h; subst h; simp
  | cons id ids ih =>
    simp only [getArray] at h
    split at h
    · cases h
    · rename_i u hu
      split at h
      · cases h
      · rename_i l' hl'
        cases h
        have ⟨h1, h2⟩ := ih hl'
        have ⟨h3, h4⟩ := findUx_some hu
        constructor
        · simp [h1, h4]
        · intro x hx
          simp at hx
          rcases hx with rfl | hx
          · exact h3
          · exact h2 x hx

/-! ### per-transaction verification -/

def coinsOfUx (l : List Ux) : Nat := (l.map (·.coins)).sum
def coinsOfOuts (l : List Out) : Nat := (l.map (·.coins)).sum

theorem verifyCoinsSpending_ok {uxIn : List Ux} {outs : List Out}
    (h : verifyCoinsSpending uxIn outs = .ok ()) : coinsOfUx uxIn = coinsOfOuts outs := by
  unfold verifyCoinsSpending at h
  try simp only [bind, Except.bind] at h
  split at h
  · rename_i cin hcin
    split at h
    · rename_i cout hcout
      have e1 := sumU64?_some _ _ hcin
      have e2 := sumU64?_some _ _ hcout
      split at h
      · cases h
      · split at h
        · cases h
        · unfold coinsOfUx coinsOfOuts; omega
    · cases h
  · cases h

theorem hard_ok {α} {r : R α} {a : α} (h : hard r = .ok a) : r = .ok a := by
  unfold hard at h; split at h
  · exact congrArg _ (by cases h; rfl)
  · cases h

theorem verifyTxnHard_ok {t : Txn} {ht : Nat} {uxIn : List Ux} (h : verifyTxnHard t ht uxIn = .ok ()) :
    t.wf = "ok" ∧ coinsOfUx uxIn = coinsOfOuts t.outs := by
  unfold verifyTxnHard at h
  try simp only [bind, Except.bind] at h
  split at h
  · cases h
  · rename_i hwf
    split at h
    · cases h
    · split at h
      · cases h
      · split at h
        · cases h
        · rename_i _ _ hc
          constructor
          · simpa using hwf
          · exact verifyCoinsSpending_ok (by cases ‹Unit›; exact hc)

/-- what an accepted in-block transaction guarantees -/
theorem verifyBlockTxn_ok {s : State} {t : Txn} (h : verifyBlockTxn s t = .ok ()) :
    ∃ uxIn, getArray s.unspent t.ins = .ok uxIn ∧ t.wf = "ok" ∧
      coinsOfUx uxIn = coinsOfOuts t.outs ∧ collides s t = false := by
  unfold verifyBlockTxn at h
  try simp only [bind, Except.bind] at h
  split at h
  · cases h
  · rename_i uxIn hux
    split at h
    · cases h
    · rename_i _ hh
      split at h
      · cases h
      · rename_i hcol
        have := verifyTxnHard_ok (hard_ok hh)
        exact ⟨uxIn, hard_ok hux, this.1, this.2, by simpa using hcol⟩

/-! ### processTransactions, non-arbitrating mode -/

theorem ptOuts_nonarb {s : State} {os : List Out} {seen seen' : List Id} {skip skip' : Bool}
    (h : ptOuts s false os seen skip = .ok (seen', skip')) :
    skip' = skip ∧ seen' = (os.map (·.id)).reverse ++ seen ∧
      (∀ o ∈ os, contains s.unspent o.id = false) ∧ ((os.map (·.id)).reverse ++ seen).Nodup = seen.Nodup := by
  induction os generalizing seen with
  | nil => simp [ptOuts] at h; simp [h.1, h.2]
  | cons o os ih =>
    simp only [ptOuts] at h
    split at h
    · simp at h
    · rename_i hseen
      split at h
      · simp at h
      · rename_i hun
        have ⟨h1, h2, h3, h4⟩ := ih h
        refine ⟨h1, ?_, ?_, ?_⟩
        · simp [h2]
        · intro x hx
          simp at hx
          rcases hx with rfl | hx
          · simpa using hun
          · exact h3 x hx
        · simp only [List.map_cons, List.reverse_cons, List.append_assoc, List.singleton_append]
          rw [h4]
          have : o.id ∉ seen := by simpa using hseen
          simp [List.nodup_cons, this]

theorem nodup_of_reverse {l : List Id} (h : l.reverse.Nodup) : l.Nodup := by
  have := List.pairwise_reverse.mp h
  exact this.imp (fun h => Ne.symm h)

def outIds (txns : List Txn) : List Id := txns.flatMap fun t => t.outs.map (·.id)

theorem ptLoop1_nonarb {s : State} {txns kept : List Txn} {seen : List Id}
    (h : ptLoop1 s false txns seen = .ok kept) (hs : seen.Nodup) :
    kept = txns ∧ (∀ t ∈ txns, verifyBlockTxn s t = .ok ()) ∧
      (∀ x ∈ outIds txns, contains s.unspent x = false) ∧
      (outIds txns).Nodup ∧ (∀ x ∈ outIds txns, x ∉ seen) := by
  induction txns generalizing seen kept with
  | nil => simp [ptLoop1] at h; simp [h, outIds]
  | cons t rest ih =>
    simp only [ptLoop1] at h
    split at h
    · simp at h
    · rename_i hv
      split at h
      · cases h
      · rename_i seen' skip' ho
        have ⟨h1, h2, h3, h4⟩ := ptOuts_nonarb ho
        split at h
        · cases h
        · rename_i kept' hk
          have hs' : seen'.Nodup := by rw [h2, h4]; exact hs
          have ⟨k1, k2, k3, k4, k5⟩ := ih hk hs'
          subst h1
          simp only [Bool.false_eq_true, if_false] at h
          cases h
          have hnd : ((t.outs.map (·.id)).reverse ++ seen).Nodup := by rw [h4]; exact hs
          rw [List.nodup_append] at hnd
          obtain ⟨n1, _, n3⟩ := hnd
          refine ⟨by rw [k1], ?_, ?_, ?_, ?_⟩
          · intro x hx
            simp at hx
            rcases hx with rfl | hx
            · exact hv
            · exact k2 x hx
          · intro x hx
            simp only [outIds, List.flatMap_cons, List.mem_append] at hx
            rcases hx with hx | hx
            · simp at hx
              obtain ⟨o, ho1, ho2⟩ := hx
              subst ho2; exact h3 o ho1
            · exact k3 x hx
          · simp only [outIds, List.flatMap_cons]
            rw [List.nodup_append]
            refine ⟨nodup_of_reverse n1, k4, ?_⟩
            intro a ha b hb hab
            subst hab
            have := k5 a hb
            apply this
            rw [h2]; simp
            left
            simpa using ha
          · intro x hx
            simp only [outIds, List.flatMap_cons, List.mem_append] at hx
            rcases hx with hx | hx
            · intro hxs
              exact n3 x (by simpa using hx) x hxs rfl
            · have := k5 x hx
              intro hxs; apply this; rw [h2]; simp; right; exact hxs

theorem ptRow_nonarb {t : Txn} {us : List Txn} {fl : List Bool} (h : ptRow false t us = .ok fl) :
    fl = List.replicate us.length false ∧ ∀ u ∈ us, sharesInput t u = false := by
  induction us generalizing fl with
  | nil => simp [ptRow] at h; simp [h]
  | cons u us ih =>
    simp only [ptRow] at h
    split at h
    · cases h
    · split at h
      · simp at h
      · rename_i hsh
        split at h
        · cases h
        · rename_i fl' hfl
          cases h
          have ⟨h1, h2⟩ := ih hfl
          refine ⟨by simp [h1, List.replicate_succ], ?_⟩
          intro x hx
          simp at hx
          rcases hx with rfl | hx
          · simpa using hsh
          · exact h2 x hx

theorem ptLoop2_nonarb {txns : List Txn} {fl : List Bool} (h : ptLoop2 false txns = .ok fl) :
    fl = List.replicate txns.length false ∧ txns.Pairwise (fun a b => sharesInput a b = false) := by
  induction txns generalizing fl with
  | nil => simp [ptLoop2] at h; simp [h]
  | cons t rest ih =>
    simp only [ptLoop2] at h
    split at h
    · cases h
    · rename_i flags hrow
      split at h
      · cases h
      · rename_i rf hrf
        cases h
        have ⟨r1, r2⟩ := ptRow_nonarb hrow
        have ⟨l1, l2⟩ := ih hrf
        refine ⟨?_, List.pairwise_cons.mpr ⟨r2, l2⟩⟩
        subst r1; subst l1
        simp [List.replicate_succ]

theorem filterMap_allFalse {α} (l : List α) :
    ((l.zip (List.replicate l.length false)).filterMap fun (p : α × Bool) => if p.2 then none else some p.1) = l := by
  induction l with
  | nil => rfl
  | cons a l ih => simp [List.replicate_succ, ih]

/-- In non-arbitrating mode a successful `processTransactions` returns its argument unchanged and
    certifies every transaction, no shared inputs, and fresh pairwise-distinct output ids. -/
theorem processTransactions_nonarb {s : State} {txns r : List Txn} (harb : s.cfg.arb = false)
    (h : processTransactions s txns = .ok r) :
    r = txns ∧ txns ≠ [] ∧ (∀ t ∈ txns, verifyBlockTxn s t = .ok ()) ∧
      txns.Pairwise (fun a b => sharesInput a b = false) ∧
      (outIds txns).Nodup ∧ (∀ x ∈ outIds txns, contains s.unspent x = false) := by
  unfold processTransactions at h
  simp only [harb, Bool.false_eq_true, if_false] at h
  split at h
  · cases h
  · unfold ptCore at h
    split at h
    · simp at h
    · rename_i hne
      split at h
      · cases h
      · rename_i kept hk
        split at h
        · cases h
        · rename_i fl hfl
          have ⟨k1, k2, k3, k4, _⟩ := ptLoop1_nonarb hk List.nodup_nil
          subst k1
          have ⟨f1, f2⟩ := ptLoop2_nonarb hfl
          subst f1
          cases h
          refine ⟨filterMap_allFalse _, ?_, k2, f2, k4, k3⟩
          intro he; subst he; simp at hne

/-! ### splitting the unspent pool into spent and kept outputs -/

theorem coins_erase {us : List Ux} {u : Ux} (hn : (us.map (·.id)).Nodup) (hu : u ∈ us) :
    coinsOfUx us = u.coins + coinsOfUx (us.filter (fun x => x.id != u.id)) := by
  induction us with
  | nil => cases hu
  | cons a us ih =>
    simp only [List.map_cons, List.nodup_cons] at hn
    obtain ⟨hna, hn'⟩ := hn
    simp only [List.mem_cons] at hu
    rcases hu with rfl | hu
    · -- u is the head; no other element carries its id
      have : us.filter (fun x => x.id != u.id) = us := by
        apply List.filter_eq_self.mpr
        intro x hx
        have : x.id ≠ u.id := by
          intro e; apply hna; rw [← e]; exact List.mem_map_of_mem hx
        simpa using this
      simp [coinsOfUx, List.filter_cons, this]
    · have hne : a.id ≠ u.id := by
        intro e; apply hna; rw [e]; exact List.mem_map_of_mem hu
      have := ih hn' hu
      simp only [coinsOfUx, List.map_cons, List.sum_cons, List.filter_cons] at this ⊢
      have hb : (a.id != u.id) = true := by simpa using hne
      simp only [hb, if_true, List.map_cons, List.sum_cons]
      omega

theorem findUx_filter_ne {us : List Ux} {id id' : Id} (h : id' ≠ id) :
    findUx (us.filter (fun x => x.id != id)) id' = findUx us id' := by
  unfold findUx
  induction us with
  | nil => rfl
  | cons a us ih =>
    simp only [List.filter_cons]
    by_cases ha : a.id = id
    · have hb : (a.id != id) = false := by simp [ha]
      have hc : (a.id == id') = false := by simp [ha]; exact fun e => h e.symm
      simp only [hb, List.find?_cons, hc]
      exact ih
    · have hb : (a.id != id) = true := by simpa using ha
      simp only [hb, if_true, List.find?_cons]
      split
      · rfl
      · exact ih

theorem getArray_filter_ne {us : List Ux} {id : Id} {ids : List Id} (h : id ∉ ids) :
    getArray (us.filter (fun x => x.id != id)) ids = getArray us ids := by
  induction ids with
  | nil => rfl
  | cons a ids ih =>
    simp only [List.mem_cons, not_or] at h
    simp only [getArray]
    rw [findUx_filter_ne (fun e => h.1 e.symm), ih h.2]

theorem nodup_filter_ids {us : List Ux} (p : Ux → Bool) (hn : (us.map (·.id)).Nodup) :
    ((us.filter p).map (·.id)).Nodup := by
  induction us with
  | nil => simp
  | cons a us ih =>
    simp only [List.map_cons, List.nodup_cons] at hn
    simp only [List.filter_cons]
    split
    · simp only [List.map_cons, List.nodup_cons]
      refine ⟨?_, ih hn.2⟩
      intro hmem
      apply hn.1
      simp only [List.mem_map] at hmem ⊢
      obtain ⟨x, hx, hxe⟩ := hmem
      exact ⟨x, (List.mem_filter.mp hx).1, hxe⟩
    · exact ih hn.2

/-- the pool's coins split exactly into the coins of the spent outputs and of the outputs kept -/
theorem coins_split {us : List Ux} {ids : List Id} {l : List Ux}
    (hn : (us.map (·.id)).Nodup) (hi : ids.Nodup) (h : getArray us ids = .ok l) :
    coinsOfUx us = coinsOfUx (us.filter (fun u => !ids.contains u.id)) + coinsOfUx l := by
  induction ids generalizing us l with
  | nil =>
    simp [getArray] at h; subst h
    have : us.filter (fun u => !([] : List Id).contains u.id) = us := by
      apply List.filter_eq_self.mpr; intro x _; simp
    rw [this]; simp [coinsOfUx]
  | cons id ids ih =>
    simp only [List.nodup_cons] at hi
    simp only [getArray] at h
    split at h
    · cases h
    · rename_i u hu
      split at h
      · cases h
      · rename_i l' hl'
        cases h
        have ⟨hmem, hid⟩ := findUx_some hu
        have e1 := coins_erase hn hmem
        have hl'' : getArray (us.filter (fun x => x.id != id)) ids = .ok l' := by
          rw [getArray_filter_ne hi.1]; exact hl'
        have e2 := ih (nodup_filter_ids _ hn) hi.2 hl''
        rw [hid] at e1
        have e3 : (us.filter (fun x => x.id != id)).filter (fun u => !ids.contains u.id)
            = us.filter (fun u => !(id :: ids).contains u.id) := by
          rw [List.filter_filter]
          apply List.filter_congr
          intro x _
          simp only [List.contains_cons, Bool.not_or, bne]
          cases h1 : (x.id == id) <;> cases h2 : ids.contains x.id <;> simp_all
        rw [e3] at e2
        simp only [coinsOfUx, List.map_cons, List.sum_cons] at e1 e2 ⊢
        omega

/-! ### block level -/

theorem getArray_append_ok {us : List Ux} {a b : List Id} {la lb : List Ux}
    (ha : getArray us a = .ok la) (hb : getArray us b = .ok lb) : getArray us (a ++ b) = .ok (la ++ lb) := by
  induction a generalizing la with
  | nil => simp [getArray] at ha; subst ha; simpa using hb
  | cons x a ih =>
    simp only [getArray] at ha
    split at ha
    · cases ha
    · rename_i u hu
      split at ha
      · cases ha
      · rename_i l' hl'
        cases ha
        simp only [List.cons_append, getArray, hu, ih hl']

def blockOutCoins (txns : List Txn) : Nat := (txns.map fun t => coinsOfOuts t.outs).sum

theorem coinsOfUx_append (a b : List Ux) : coinsOfUx (a ++ b) = coinsOfUx a + coinsOfUx b := by
  simp [coinsOfUx]

theorem getArray_block {s : State} {txns : List Txn}
    (h : ∀ t ∈ txns, ∃ uxIn, getArray s.unspent t.ins = .ok uxIn ∧ coinsOfUx uxIn = coinsOfOuts t.outs) :
    ∃ l, getArray s.unspent (txns.flatMap (·.ins)) = .ok l ∧ coinsOfUx l = blockOutCoins txns := by
  induction txns with
  | nil => exact ⟨[], rfl, rfl⟩
  | cons t rest ih =>
    obtain ⟨uxIn, h1, h2⟩ := h t (by simp)
    obtain ⟨l, h3, h4⟩ := ih (fun x hx => h x (by simp [hx]))
    refine ⟨uxIn ++ l, ?_, ?_⟩
    · simp only [List.flatMap_cons]; exact getArray_append_ok h1 h3
    · simp only [coinsOfUx_append, blockOutCoins, List.map_cons, List.sum_cons, h2]
      simp only [blockOutCoins] at h4; omega

theorem created_coins (time seq : Nat) (txns : List Txn) :
    coinsOfUx (txns.flatMap (createUnspents time seq)) = blockOutCoins txns := by
  induction txns with
  | nil => rfl
  | cons t rest ih =>
    simp only [List.flatMap_cons, coinsOfUx_append, ih, blockOutCoins, List.map_cons, List.sum_cons]
    congr 1
    simp [coinsOfUx, coinsOfOuts, createUnspents, List.map_map, Function.comp_def]

theorem sharesInput_false {a b : Txn} (h : sharesInput a b = false) : ∀ x ∈ a.ins, x ∉ b.ins := by
  unfold sharesInput at h
  intro x hx hb
  have := List.any_eq_false.mp h x hx
  simp at this
  exact this hb

theorem nodup_block_inputs {txns : List Txn} (h1 : ∀ t ∈ txns, t.ins.Nodup)
    (h2 : txns.Pairwise (fun a b => sharesInput a b = false)) : (txns.flatMap (·.ins)).Nodup := by
  induction txns with
  | nil => simp
  | cons t rest ih =>
    simp only [List.flatMap_cons]
    rw [List.nodup_append]
    have hp := List.pairwise_cons.mp h2
    refine ⟨h1 t (by simp), ih (fun x hx => h1 x (by simp [hx])) hp.2, ?_⟩
    intro a ha b hb hab
    subst hab
    simp only [List.mem_flatMap] at hb
    obtain ⟨u, hu, hau⟩ := hb
    exact sharesInput_false (hp.1 u hu) a ha hau

/-! ### Unspents.ProcessBlock and block execution -/

def blockInputs (b : Block) : List Id := b.txns.flatMap (·.ins)
def blockCreated (b : Block) : List Ux := b.txns.flatMap (createUnspents b.time b.seq)
def keptPool (s : State) (b : Block) : List Ux := s.unspent.filter (fun u => !(blockInputs b).contains u.id)

theorem unspentProcessBlock_ok {s s1 : State} {b : Block} (h : unspentProcessBlock s b = .ok s1) :
    (∃ spent, getArray s.unspent (blockInputs b) = .ok spent ∧
        s1.xor = xorList ((blockCreated b).map (·.snap)) (xorList (spent.map (·.snap)) s.xor)) ∧
      ((blockCreated b).any (fun u => contains (keptPool s b) u.id) = false) ∧
      s1.unspent = keptPool s b ++ blockCreated b ∧ s1.chain = s.chain ∧ s1.cfg = s.cfg ∧
      s1.pool = s.pool ∧ s1.aih = some b.seq ∧
      s1.hparsed = s.hparsed ∧ s1.houts = s.houts ∧ s1.htxns = s.htxns ∧
      s1.haddrUx = s.haddrUx ∧ s1.haddrTxns = s.haddrTxns := by
  unfold unspentProcessBlock at h
  simp only [bind, Except.bind] at h
  split at h
  · cases h
  · rename_i spent hsp
    split at h
    · cases h
    · rename_i htw
      split at h
      · cases h
      · split at h
        · cases h
        · split at h
          · split at h
            · cases h
            · cases h
              exact ⟨⟨spent, hsp, rfl⟩, (Bool.not_eq_true _).mp htw, rfl, rfl, rfl, rfl, rfl, rfl, rfl, rfl, rfl, rfl⟩
          · split at h
            · cases h
            · cases h
              exact ⟨⟨spent, hsp, rfl⟩, (Bool.not_eq_true _).mp htw, rfl, rfl, rfl, rfl, rfl, rfl, rfl, rfl, rfl, rfl⟩

/-- the non-history part of the state -/
def SameCore (s s' : State) : Prop :=
  s'.unspent = s.unspent ∧ s'.chain = s.chain ∧ s'.xor = s.xor ∧ s'.pool = s.pool ∧ s'.cfg = s.cfg ∧
    s'.aidx = s.aidx ∧ s'.aih = s.aih

theorem SameCore.refl (s : State) : SameCore s s := ⟨rfl, rfl, rfl, rfl, rfl, rfl, rfl⟩
theorem SameCore.trans {a b c : State} (h1 : SameCore a b) (h2 : SameCore b c) : SameCore a c := by
  obtain ⟨a1, a2, a3, a4, a5, a6, a7⟩ := h1
  obtain ⟨b1, b2, b3, b4, b5, b6, b7⟩ := h2
  exact ⟨b1.trans a1, b2.trans a2, b3.trans a3, b4.trans a4, b5.trans a5, b6.trans a6, b7.trans a7⟩

theorem parseTxn_core {seq : Nat} {created : List Ux} {s s' : State} {t : Txn}
    (h : parseTxn seq created s t = .ok s') : SameCore s s' := by
  unfold parseTxn at h
  simp only [bind, Except.bind] at h
  split at h
  · cases h
  · cases h; exact ⟨rfl, rfl, rfl, rfl, rfl, rfl, rfl⟩

theorem foldlM_core {α} (f : State → α → R State) (hf : ∀ s a s', f s a = .ok s' → SameCore s s')
    (l : List α) (s s' : State) (h : l.foldlM f s = .ok s') : SameCore s s' := by
  induction l generalizing s with
  | nil => simp [List.foldlM, pure, Except.pure] at h; subst h; exact SameCore.refl _
  | cons a l ih =>
    simp only [List.foldlM_cons, bind, Except.bind] at h
    split at h
    · cases h
    · rename_i s1 h1
      exact SameCore.trans (hf _ _ _ h1) (ih _ h)

theorem parseBlock_core {s s' : State} {b : Block} (h : parseBlock s b = .ok s') : SameCore s s' := by
  unfold parseBlock at h
  simp only [bind, Except.bind] at h
  split at h
  · cases h
  · rename_i s1 h1
    cases h
    have := foldlM_core _ (fun st t st' hh => parseTxn_core hh) _ _ _ h1
    obtain ⟨a1, a2, a3, a4, a5, a6, a7⟩ := this
    exact ⟨a1, a2, a3, a4, a5, a6, a7⟩

theorem execSigned_ok {s s' : State} {b : Block} (h : execSigned s b = .ok s') :
    b.sig = true ∧ processBlock s b = .ok () ∧ (s.chain.any (·.hh == b.hh)) = false ∧
      ∃ s1, unspentProcessBlock s b = .ok s1 ∧ s'.unspent = s1.unspent ∧ s'.chain = s.chain ++ [b] ∧
        s'.xor = s1.xor ∧ s'.cfg = s.cfg ∧ s'.aidx = s1.aidx ∧ s'.aih = s1.aih ∧
        s'.pool = s.pool.filter (fun e => !(b.txns.map (·.hash)).contains e.txn.hash) := by
  unfold execSigned at h
  simp only [bind, Except.bind] at h
  split at h
  · cases h
  · rename_i hsig
    split at h
    · cases h
    · rename_i u hpb
      split at h
      · cases h
      · rename_i hdup
        split at h
        · cases h
        · split at h
          · cases h
          · rename_i s1 hs1
            have hc := parseBlock_core h
            have hu := unspentProcessBlock_ok hs1
            obtain ⟨c1, c2, c3, c4, c5, c6, c7⟩ := hc
            refine ⟨by simpa using hsig, by cases u; exact hpb, by simpa using hdup, s1, hs1, c1, ?_, c3, ?_, c6, c7, ?_⟩
            · rw [c2]; simp [hu.2.2.2.1]
            · rw [c5]; exact hu.2.2.2.2.1
            · rw [c4]; simp [hu.2.2.2.2.2.1]

theorem processBlock_ok {s : State} {b g : Block} (hg : s.chain.head? = some g) (h : processBlock s b = .ok ()) :
    g.hh ≠ b.hh ∧ verifyBlockHeader s b = .ok () ∧
      (∃ txns, processTransactions s b.txns = .ok txns ∧ sameTxns txns b.txns = true) ∧ b.uxh = hex16 s.xor := by
  unfold processBlock at h
  simp only [hg, bind, Except.bind] at h
  split at h
  · cases h
  · rename_i hgen
    split at h
    · cases h
    · rename_i u hvh
      split at h
      · cases h
      · rename_i txns hpt
        split at h
        · cases h
        · rename_i hsame
          split at h
          · cases h
          · rename_i hux
            refine ⟨by simpa using hgen, by cases u; exact hvh, ⟨txns, hpt, by simpa using hsame⟩, by simpa using hux⟩

theorem verifyBlockHeader_ok {s : State} {b : Block} (h : verifyBlockHeader s b = .ok ()) :
    ∃ head, s.chain.getLast? = some head ∧ b.seq = head.seq + 1 ∧ head.time < b.time ∧ b.prev = head.hh ∧ b.cb = b.body := by
  unfold verifyBlockHeader at h
  simp only [bind, Except.bind] at h
  split at h
  · rename_i head hh
    split at h
    · cases h
    · rename_i h1
      split at h
      · cases h
      · rename_i h2
        split at h
        · cases h
        · rename_i h3
          split at h
          · cases h
          · rename_i h4
            exact ⟨head, hh, by simpa using h1, by omega, by simpa using h3, by simpa using h4⟩
  · cases h

end Sky.Ledger
