/-
  Sky.Ledger.Sorted — coin.SortTransactions as modelled (`sortKeyed`) returns a list ordered by
  fee per kilobyte descending, ties by ascending hash; every later filtering step keeps that order.
-/
import Sky.Ledger.Arb
namespace Sky.Ledger
open Sky

/-- `a` may precede `b`: higher fee per kB first, equal fees by lower (or equal) hash -/
def kle (a b : Keyed) : Prop := kless b a = false

theorem kle_iff (a b : Keyed) : kle a b ↔ (a.fee > b.fee ∨ (a.fee = b.fee ∧ a.txn.hash ≤ b.txn.hash)) := by
  unfold kle kless
  by_cases h : b.fee = a.fee
  · simp only [h, beq_self_eq_true, if_true, decide_eq_false_iff_not]
    constructor
    · intro hh; right; exact ⟨trivial, hh⟩
    · rintro (hh | ⟨_, hh⟩)
      · omega
      · exact hh
  · have hb : (b.fee == a.fee) = false := by simpa using h
    simp only [hb, Bool.false_eq_true, if_false, decide_eq_false_iff_not]
    constructor
    · intro hh; left; omega
    · rintro (hh | ⟨he, _⟩)
      · omega
      · exact absurd he.symm h

theorem kle_total (a b : Keyed) : kle a b ∨ kle b a := by
  rw [kle_iff, kle_iff]
  rcases Nat.lt_trichotomy a.fee b.fee with h | h | h
  · right; left; exact h
  · rcases String.le_total a.txn.hash b.txn.hash with hh | hh
    · left; right; exact ⟨h, hh⟩
    · right; right; exact ⟨h.symm, hh⟩
  · left; left; exact h

theorem kle_trans {a b c : Keyed} (h1 : kle a b) (h2 : kle b c) : kle a c := by
  rw [kle_iff] at *
  rcases h1 with h1 | ⟨e1, l1⟩ <;> rcases h2 with h2 | ⟨e2, l2⟩
  · left; omega
  · left; omega
  · left; omega
  · right; exact ⟨e1.trans e2, String.le_trans l1 l2⟩

theorem not_kless_kle {x y : Keyed} (h : ¬ kless x y = true) : kle y x := by
  unfold kle; simpa using h

theorem mem_insertSorted_iff {x y : Keyed} {l : List Keyed} : y ∈ insertSorted x l ↔ y = x ∨ y ∈ l := by
  induction l with
  | nil => simp [insertSorted]
  | cons a l ih =>
    simp only [insertSorted]
    split
    · simp
    · simp only [List.mem_cons, ih]
      constructor
      · rintro (h | h | h)
        · right; left; exact h
        · left; exact h
        · right; right; exact h
      · rintro (h | h | h)
        · right; left; exact h
        · left; exact h
        · right; right; exact h

theorem insertSorted_sorted (x : Keyed) (l : List Keyed) (h : l.Pairwise kle) :
    (insertSorted x l).Pairwise kle := by
  induction l with
  | nil => simp [insertSorted]
  | cons a l ih =>
    simp only [insertSorted]
    have ⟨ha, hl⟩ := List.pairwise_cons.mp h
    split
    · rename_i hlt
      -- x strictly before a: x ≤ a and hence x ≤ everything after a
      have hxa : kle x a := by
        rcases kle_total x a with h1 | h1
        · exact h1
        · unfold kle at h1; rw [hlt] at h1; cases h1
      refine List.pairwise_cons.mpr ⟨?_, h⟩
      intro y hy
      simp only [List.mem_cons] at hy
      rcases hy with rfl | hy
      · exact hxa
      · exact kle_trans hxa (ha y hy)
    · rename_i hnlt
      have hax : kle a x := not_kless_kle hnlt
      refine List.pairwise_cons.mpr ⟨?_, ih hl⟩
      intro y hy
      rcases mem_insertSorted_iff.mp hy with rfl | hy
      · exact hax
      · exact ha y hy

theorem sortKeyed_sorted (l : List Keyed) : (sortKeyed l).Pairwise kle := by
  unfold sortKeyed
  induction l with
  | nil => simp
  | cons a l ih => simp only [List.foldr_cons]; exact insertSorted_sorted a _ ih

theorem mem_sortKeyed_iff {y : Keyed} {l : List Keyed} : y ∈ sortKeyed l ↔ y ∈ l := by
  unfold sortKeyed
  induction l with
  | nil => simp
  | cons a l ih => simp only [List.foldr_cons, mem_insertSorted_iff, ih, List.mem_cons]

/-- the keys are the real ones: fee per kB of the transaction's fee against the current head -/
theorem keyTxns_keys {s : State} {txns : List Txn} {keyed : List Keyed} (h : keyTxns s txns = .ok keyed) :
    ∀ k ∈ keyed, ∃ f sz, txnFee s k.txn = .ok f ∧ k.txn.size = some sz ∧ k.fee = feeKB f sz := by
  induction txns generalizing keyed with
  | nil => simp [keyTxns] at h; subst h; simp
  | cons t ts ih =>
    simp only [keyTxns] at h
    split at h
    · cases h
    · rename_i acc hacc
      have := ih hacc
      split at h
      · cases h; exact this
      · rename_i f hf
        split at h
        · cases h
        · cases h
        · rename_i sz hsz0 hsz
          cases h
          intro k hk
          simp at hk
          rcases hk with rfl | hk
          · exact ⟨f, sz, hf, hsz, rfl⟩
          · exact this k hk

/-- coin.SortTransactions: the result is the transaction list of a key list ordered by (fee/kB desc, hash asc)
whose keys are the real fees per kB -/
theorem sortTransactions_sorted {s : State} {txns l : List Txn} (h : sortTransactions s txns = .ok l) :
    ∃ ks : List Keyed, l = ks.map (·.txn) ∧ ks.Pairwise kle ∧
      ∀ k ∈ ks, ∃ f sz, txnFee s k.txn = .ok f ∧ k.txn.size = some sz ∧ k.fee = feeKB f sz := by
  unfold sortTransactions at h
  split at h
  · cases h
  · rename_i keyed hk
    cases h
    refine ⟨sortKeyed keyed, rfl, sortKeyed_sorted keyed, ?_⟩
    intro k hkm
    exact keyTxns_keys hk k (mem_sortKeyed_iff.mp hkm)

/-- the arbitrating `processTransactions` returns a sub-sequence of the fee-ordered list -/
theorem processTransactions_arb_sorted {s : State} {txns r : List Txn} (harb : s.cfg.arb = true)
    (h : processTransactions s txns = .ok r) :
    ∃ ks : List Keyed, r.Sublist (ks.map (·.txn)) ∧ ks.Pairwise kle ∧
      ∀ k ∈ ks, ∃ f sz, txnFee s k.txn = .ok f ∧ k.txn.size = some sz ∧ k.fee = feeKB f sz := by
  unfold processTransactions at h
  simp only [harb, if_true] at h
  split at h
  · cases h
  · split at h
    · cases h
    · rename_i v hv
      obtain ⟨ks, hl, hs, hk⟩ := sortTransactions_sorted hv
      refine ⟨ks, ?_, hs, hk⟩
      rw [← hl]
      unfold ptCore at h
      split at h
      · cases h; simp
      · split at h
        · cases h
        · rename_i kept hkept
          split at h
          · cases h
          · rename_i fl _
            cases h
            exact (filterMap_flags_sublist kept fl).trans (ptLoop1_sublist hkept).1

end Sky.Ledger
