/-
  Sky.Ledger.Arb — `processTransactions` in ANY mode (arbitrating or not): whatever it returns is a
  conflict-free, individually verified list with fresh pairwise-distinct output ids.
-/
import Sky.Ledger.Create
namespace Sky.Ledger
open Sky

theorem ptOuts_gen {s : State} {arb : Bool} {os : List Out} {seen seen' : List Id} {skip skip' : Bool}
    (h : ptOuts s arb os seen skip = .ok (seen', skip')) :
    (skip = true → skip' = true) ∧ (∀ x ∈ seen, x ∈ seen') ∧ (seen.Nodup → seen'.Nodup) ∧
    (skip' = false → seen' = (os.map (·.id)).reverse ++ seen ∧
        (∀ o ∈ os, contains s.unspent o.id = false) ∧ (((os.map (·.id)).reverse ++ seen).Nodup = seen.Nodup)) := by
  induction os generalizing seen skip with
  | nil =>
    simp [ptOuts] at h
    obtain ⟨h1, h2⟩ := h
    subst h1; subst h2
    exact ⟨fun h => h, fun x hx => hx, fun h => h, fun _ => by simp⟩
  | cons o os ih =>
    simp only [ptOuts] at h
    split at h
    · split at h
      · obtain ⟨a, b, c, d⟩ := ih h
        have hs' : skip' = true := a rfl
        exact ⟨fun _ => hs', b, c, fun hf => by rw [hs'] at hf; cases hf⟩
      · cases h
    · rename_i hseen
      split at h
      · split at h
        · obtain ⟨a, b, c, d⟩ := ih h
          have hs' : skip' = true := a rfl
          exact ⟨fun _ => hs', b, c, fun hf => by rw [hs'] at hf; cases hf⟩
        · cases h
      · rename_i hun
        obtain ⟨a, b, c, d⟩ := ih h
        have hni : o.id ∉ seen := by simpa using hseen
        refine ⟨a, fun x hx => b x (by simp [hx]), fun hn => c (by simp [List.nodup_cons, hni, hn]), ?_⟩
        intro hf
        obtain ⟨d1, d2, d3⟩ := d hf
        refine ⟨by simp [d1], ?_, ?_⟩
        · intro x hx
          simp at hx
          rcases hx with rfl | hx
          · simpa using hun
          · exact d2 x hx
        · simp only [List.map_cons, List.reverse_cons, List.append_assoc, List.singleton_append]
          rw [d3]
          simp [List.nodup_cons, hni]

/-- first loop, any mode: the kept transactions have fresh, pairwise distinct output ids -/
theorem ptLoop1_gen {s : State} {arb : Bool} {txns kept : List Txn} {seen : List Id}
    (h : ptLoop1 s arb txns seen = .ok kept) (hs : seen.Nodup) :
    (∀ x ∈ outIds kept, contains s.unspent x = false) ∧ (outIds kept).Nodup ∧ (∀ x ∈ outIds kept, x ∉ seen) := by
  induction txns generalizing seen kept with
  | nil => simp [ptLoop1] at h; subst h; simp [outIds]
  | cons t rest ih =>
    simp only [ptLoop1] at h
    split at h
    · split at h
      · exact ih h hs
      · cases h
    · split at h
      · cases h
      · rename_i seen' skip' ho
        obtain ⟨_, g2, g3, g4⟩ := ptOuts_gen ho
        split at h
        · cases h
        · rename_i kept' hk
          have hs' : seen'.Nodup := g3 hs
          obtain ⟨k3, k4, k5⟩ := ih hk hs'
          cases h
          cases hsk : skip' with
          | true =>
            simp only [if_true]
            exact ⟨k3, k4, fun x hx hxs => k5 x hx (g2 x hxs)⟩
          | false =>
            simp only [Bool.false_eq_true, if_false]
            obtain ⟨d1, d2, d3⟩ := g4 hsk
            have hnd : ((t.outs.map (·.id)).reverse ++ seen).Nodup := by rw [d3]; exact hs
            rw [List.nodup_append] at hnd
            obtain ⟨n1, _, n3⟩ := hnd
            refine ⟨?_, ?_, ?_⟩
            · intro x hx
              simp only [outIds, List.flatMap_cons, List.mem_append] at hx
              rcases hx with hx | hx
              · simp at hx
                obtain ⟨o, ho1, ho2⟩ := hx
                subst ho2; exact d2 o ho1
              · exact k3 x hx
            · simp only [outIds, List.flatMap_cons]
              rw [List.nodup_append]
              refine ⟨nodup_of_reverse n1, k4, ?_⟩
              intro a ha b hb hab
              subst hab
              apply k5 a hb
              rw [d1]; simp
              left; simpa using ha
            · intro x hx
              simp only [outIds, List.flatMap_cons, List.mem_append] at hx
              rcases hx with hx | hx
              · intro hxs
                exact n3 x (by simpa using hx) x hxs rfl
              · intro hxs; apply k5 x hx; rw [d1]; simp; right; exact hxs

/-- one row of the double loop, any mode: an unflagged later transaction shares no input with `t` -/
theorem ptRow_gen {arb : Bool} {t : Txn} {us : List Txn} {fl : List Bool} (h : ptRow arb t us = .ok fl) :
    fl.length = us.length ∧ ∀ p ∈ us.zip fl, p.2 = false → sharesInput t p.1 = false := by
  induction us generalizing fl with
  | nil => simp [ptRow] at h; subst h; simp
  | cons u us ih =>
    simp only [ptRow] at h
    split at h
    · cases h
    · split at h
      · rename_i hsh
        split at h
        · split at h
          · cases h
          · rename_i fl' hfl
            cases h
            obtain ⟨h1, h2⟩ := ih hfl
            refine ⟨by simp [h1], ?_⟩
            intro p hp hpf
            simp at hp
            rcases hp with rfl | hp
            · simp at hpf
            · exact h2 p hp hpf
        · cases h
      · rename_i hsh
        split at h
        · cases h
        · rename_i fl' hfl
          cases h
          obtain ⟨h1, h2⟩ := ih hfl
          refine ⟨by simp [h1], ?_⟩
          intro p hp hpf
          simp at hp
          rcases hp with rfl | hp
          · simpa using hsh
          · exact h2 p hp hpf

def unflagged (l : List Txn) (fl : List Bool) : List Txn :=
  (l.zip fl).filterMap fun (p : Txn × Bool) => if p.2 then none else some p.1

theorem mem_unflagged {l : List Txn} {fl : List Bool} {t : Txn} (h : t ∈ unflagged l fl) : (t, false) ∈ l.zip fl := by
  unfold unflagged at h
  simp only [List.mem_filterMap] at h
  obtain ⟨p, hp, hpe⟩ := h
  obtain ⟨a, b⟩ := p
  cases b <;> simp at hpe
  subst hpe; exact hp

theorem unflagged_cons (a : Txn) (l : List Txn) (x : Bool) (f : List Bool) :
    unflagged (a :: l) (x :: f) = if x then unflagged l f else a :: unflagged l f := by
  unfold unflagged
  cases x <;> simp

theorem unflagged_or_sublist (l : List Txn) (f g : List Bool) :
    (unflagged l (List.zipWith (· || ·) f g)).Sublist (unflagged l g) := by
  induction l generalizing f g with
  | nil => simp [unflagged]
  | cons a l ih =>
    cases f with
    | nil => simp [unflagged]
    | cons x f =>
      cases g with
      | nil => simp [unflagged]
      | cons y g =>
        have := ih f g
        simp only [List.zipWith_cons_cons, unflagged_cons]
        cases x <;> cases y
        · simp only [Bool.or_self, Bool.false_eq_true, if_false]; exact this.cons₂ _
        · simp only [Bool.false_or, if_true]; exact this
        · simp only [Bool.true_or, if_true, Bool.false_eq_true, if_false]; exact this.cons _
        · simp only [Bool.or_self, if_true]; exact this

theorem mem_zip_or {l : List Txn} {f g : List Bool} {t : Txn}
    (h : (t, false) ∈ l.zip (List.zipWith (· || ·) f g)) : (t, false) ∈ l.zip f := by
  induction l generalizing f g with
  | nil => simp at h
  | cons a l ih =>
    cases f with
    | nil => simp at h
    | cons x f =>
      cases g with
      | nil => simp at h
      | cons y g =>
        simp only [List.zipWith_cons_cons, List.zip_cons_cons, List.mem_cons, Prod.mk.injEq] at h ⊢
        rcases h with ⟨h1, h2⟩ | h
        · left
          refine ⟨h1, ?_⟩
          cases x
          · rfl
          · simp at h2
        · right; exact ih h

/-- second loop, any mode: the transactions left unflagged are pairwise free of shared inputs -/
theorem ptLoop2_gen {arb : Bool} {txns : List Txn} {fl : List Bool} (h : ptLoop2 arb txns = .ok fl) :
    (unflagged txns fl).Pairwise (fun a b => sharesInput a b = false) := by
  induction txns generalizing fl with
  | nil => simp [ptLoop2] at h; subst h; simp [unflagged]
  | cons t rest ih =>
    simp only [ptLoop2] at h
    split at h
    · cases h
    · rename_i flags hrow
      split at h
      · cases h
      · rename_i rf hrf
        cases h
        obtain ⟨_, r2⟩ := ptRow_gen hrow
        have l2 := ih hrf
        have e : unflagged (t :: rest) (false :: List.zipWith (· || ·) flags rf)
            = t :: unflagged rest (List.zipWith (· || ·) flags rf) := by
          rw [unflagged_cons]; simp
        rw [e, List.pairwise_cons]
        refine ⟨?_, l2.sublist (unflagged_or_sublist rest flags rf)⟩
        intro u hu
        have := mem_zip_or (mem_unflagged hu)
        exact r2 (u, false) this rfl

theorem outIds_sublist {a b : List Txn} (h : a.Sublist b) : (outIds a).Sublist (outIds b) := by
  unfold outIds
  induction h with
  | slnil => simp
  | cons a _ ih => simp only [List.flatMap_cons]; exact List.Sublist.trans ih (List.sublist_append_right _ _)
  | cons_cons a _ ih => simp only [List.flatMap_cons]; exact List.Sublist.append (List.Sublist.refl _) ih

/-- `ptCore` in any mode: every returned transaction verified, no shared inputs, output ids pairwise
distinct and not in the unspent pool -/
theorem ptCore_facts {s : State} {arb : Bool} {v r : List Txn} (h : ptCore s arb v = .ok r) :
    (∀ t ∈ r, t ∈ v ∧ verifyBlockTxn s t = .ok ()) ∧ r.Pairwise (fun a b => sharesInput a b = false) ∧
      (outIds r).Nodup ∧ (∀ x ∈ outIds r, contains s.unspent x = false) := by
  refine ⟨ptCore_mem h, ?_⟩
  unfold ptCore at h
  split at h
  · split at h
    · cases h; simp [outIds]
    · cases h
  · split at h
    · cases h
    · rename_i kept hk
      split at h
      · cases h
      · rename_i fl hfl
        cases h
        obtain ⟨k3, k4, _⟩ := ptLoop1_gen hk List.nodup_nil
        have hsub : (unflagged kept fl).Sublist kept := filterMap_flags_sublist kept fl
        have hos := outIds_sublist hsub
        refine ⟨ptLoop2_gen hfl, k4.sublist hos, fun x hx => k3 x (hos.subset hx)⟩

/-- `processTransactions` in any mode -/
theorem processTransactions_facts {s : State} {txns r : List Txn} (h : processTransactions s txns = .ok r) :
    (∀ t ∈ r, t ∈ txns ∧ verifyBlockTxn s t = .ok ()) ∧ r.Pairwise (fun a b => sharesInput a b = false) ∧
      (outIds r).Nodup ∧ (∀ x ∈ outIds r, contains s.unspent x = false) := by
  refine ⟨processTransactions_mem h, ?_⟩
  unfold processTransactions at h
  split at h
  · cases h
  · split at h
    · split at h
      · cases h
      · exact (ptCore_facts h).2
    · exact (ptCore_facts h).2

/-- hash-injectivity on the transactions of one block (collision freeness of SHA-256 on that finite set) -/
def HashInj (l : List Txn) : Prop := ∀ t ∈ l, ∀ t' ∈ l, t.hash = t'.hash → t = t'

/-- if arbitration neither dropped nor reordered anything (the `sameTransactions` guard) the result IS the
block's transaction list -/
theorem same_of_sameTxns {r txns : List Txn} (hinj : HashInj txns) (hmem : ∀ t ∈ r, t ∈ txns)
    (hsame : sameTxns r txns = true) : r = txns := by
  unfold sameTxns at hsame
  have hmap : r.map (·.hash) = txns.map (·.hash) := by simpa using hsame
  have hlen : r.length = txns.length := by
    have := congrArg List.length hmap; simpa using this
  apply List.ext_getElem hlen
  intro i h1 h2
  have hh : (r[i]).hash = (txns[i]).hash := by
    have := congrArg (fun l => l[i]?) hmap
    simp [List.getElem?_map, List.getElem?_eq_getElem h1, List.getElem?_eq_getElem h2] at this
    exact this
  exact hinj _ (hmem _ (List.getElem_mem h1)) _ (List.getElem_mem h2) hh

end Sky.Ledger
