/-
  Sky.Ledger.Xor — the unspent-set checksum (xor of snapshot hashes) is maintained exactly.
-/
import Sky.Ledger.Supply
namespace Sky.Ledger
open Sky

def xorOf (l : List Ux) : Nat := xorList (l.map (·.snap)) 0

theorem xorList_acc (xs : List Nat) (acc : Nat) : xorList xs acc = acc ^^^ xorList xs 0 := by
  unfold xorList
  induction xs generalizing acc with
  | nil => simp
  | cons x xs ih =>
    simp only [List.foldl_cons]
    rw [ih (acc ^^^ x), ih (0 ^^^ x)]
    simp only [Nat.zero_xor]
    ac_rfl

theorem xorOf_cons (u : Ux) (l : List Ux) : xorOf (u :: l) = u.snap ^^^ xorOf l := by
  unfold xorOf
  simp only [List.map_cons]
  show xorList (u.snap :: l.map (·.snap)) 0 = _
  unfold xorList
  simp only [List.foldl_cons, Nat.zero_xor]
  have := xorList_acc (l.map (·.snap)) u.snap
  unfold xorList at this
  exact this

theorem xorOf_append (a b : List Ux) : xorOf (a ++ b) = xorOf a ^^^ xorOf b := by
  induction a with
  | nil => simp [xorOf, xorList]
  | cons u a ih => simp only [List.cons_append, xorOf_cons, ih]; ac_rfl

theorem xor_erase {us : List Ux} {u : Ux} (hn : (us.map (·.id)).Nodup) (hu : u ∈ us) :
    xorOf us = u.snap ^^^ xorOf (us.filter (fun x => x.id != u.id)) := by
  induction us with
  | nil => cases hu
  | cons a us ih =>
    simp only [List.map_cons, List.nodup_cons] at hn
    obtain ⟨hna, hn'⟩ := hn
    simp only [List.mem_cons] at hu
    rcases hu with rfl | hu
    · have : us.filter (fun x => x.id != u.id) = us := by
        apply List.filter_eq_self.mpr
        intro x hx
        have : x.id ≠ u.id := by
          intro e; apply hna; rw [← e]; exact List.mem_map_of_mem hx
        simpa using this
      simp [List.filter_cons, this, xorOf_cons]
    · have hne : a.id ≠ u.id := by
        intro e; apply hna; rw [e]; exact List.mem_map_of_mem hu
      have hb : (a.id != u.id) = true := by simpa using hne
      simp only [List.filter_cons, hb, if_true, xorOf_cons, ih hn' hu]
      ac_rfl

/-- the checksum splits into the part of the spent outputs and the part of the outputs kept -/
theorem xor_split {us : List Ux} {ids : List Id} {l : List Ux}
    (hn : (us.map (·.id)).Nodup) (hi : ids.Nodup) (h : getArray us ids = .ok l) :
    xorOf us = xorOf (us.filter (fun u => !ids.contains u.id)) ^^^ xorOf l := by
  induction ids generalizing us l with
  | nil =>
    simp [getArray] at h; subst h
    have : us.filter (fun u => !([] : List Id).contains u.id) = us := by
      apply List.filter_eq_self.mpr; intro x _; simp
    rw [this]; simp [xorOf, xorList]
  | cons id ids ih =>
    simp only [List.nodup_cons] at hi
    simp only [getArray] at h
    split at h
    · cases h
    · rename_i u hu
      split at h
      · cases h
      · rename_i l' hl'
        cases h
        have ⟨hmem, hid⟩ := findUx_some hu
        have e1 := xor_erase hn hmem
        have hl'' : getArray (us.filter (fun x => x.id != id)) ids = .ok l' := by
          rw [getArray_filter_ne hi.1]; exact hl'
        have e2 := ih (nodup_filter_ids _ hn) hi.2 hl''
        rw [hid] at e1
        have e3 : (us.filter (fun x => x.id != id)).filter (fun u => !ids.contains u.id)
            = us.filter (fun u => !(id :: ids).contains u.id) := by
          rw [List.filter_filter]
          apply List.filter_congr
          intro x _
          simp only [List.contains_cons, Bool.not_or, bne]
          cases h1 : (x.id == id) <;> cases h2 : ids.contains x.id <;> simp_all
        rw [e3] at e2
        rw [e1, e2, xorOf_cons]
        ac_rfl

/-- block execution keeps `xor = xor of the snapshot hashes of the unspent set` -/
theorem exec_preserves_xor {s s' : State} {b g : Block} {G : Nat} (hinj : HashInj b.txns)
    (hg : s.chain.head? = some g) (hinv : Inv s G) (hx : s.xor = xorOf s.unspent)
    (hwf : ∀ t ∈ b.txns, WfSound t) (h : execSigned s b = .ok s') : s'.xor = xorOf s'.unspent := by
  obtain ⟨hv, hp, _, _, _⟩ := accepted_block_facts hinj hg h
  obtain ⟨_, hpb, _, s1, hs1, hu, _, hxor, _⟩ := execSigned_ok h
  obtain ⟨⟨spent, hsp, hx1⟩, _, hun, _⟩ := unspentProcessBlock_ok hs1
  have hins : (blockInputs b).Nodup := by
    apply nodup_block_inputs _ hp
    intro t ht
    obtain ⟨_, _, hwfok, _, _⟩ := verifyBlockTxn_ok (hv t ht)
    exact hwf t ht hwfok
  have hsplit := xor_split hinv.1 hins hsp
  rw [hxor, hx1, hu, hun, xorOf_append, xorList_acc, xorList_acc (spent.map (·.snap)), hx, hsplit]
  have e1 : xorList (List.map (fun x => x.snap) (blockCreated b)) 0 = xorOf (blockCreated b) := rfl
  have e2 : xorList (List.map (fun x => x.snap) spent) 0 = xorOf spent := rfl
  rw [e1, e2]
  have : keptPool s b = s.unspent.filter (fun u => !(blockInputs b).contains u.id) := rfl
  rw [this]
  -- (K ^ S) ^ S ^ C = K ^ C
  have hss : ∀ a : Nat, a ^^^ a = 0 := Nat.xor_self
  calc (xorOf (s.unspent.filter _) ^^^ xorOf spent) ^^^ xorOf spent ^^^ xorOf (blockCreated b)
      = xorOf (s.unspent.filter _) ^^^ (xorOf spent ^^^ xorOf spent) ^^^ xorOf (blockCreated b) := by ac_rfl
    _ = xorOf (s.unspent.filter _) ^^^ xorOf (blockCreated b) := by rw [hss]; simp

end Sky.Ledger
