/-
  Sky.Ledger.Supply — block execution preserves the coin supply and the uniqueness of unspent ids.
-/
import Sky.Ledger.Arb
namespace Sky.Ledger
open Sky

/-- consistency of the supplied well-formedness verdict with the "Duplicate spend" rule of
    coin.Transaction.verify (C09 `verify_iff`): a transaction judged well formed has distinct inputs -/
def WfSound (t : Txn) : Prop := t.wf = "ok" → t.ins.Nodup

/-- ledger invariant: unspent ids are unique and the unspent coins sum (in ℕ, no modulus) to `supply` -/
def Inv (s : State) (supply : Nat) : Prop :=
  (s.unspent.map (·.id)).Nodup ∧ coinsOfUx s.unspent = supply

theorem created_ids (time seq : Nat) (txns : List Txn) :
    (txns.flatMap (createUnspents time seq)).map (·.id) = outIds txns := by
  induction txns with
  | nil => rfl
  | cons t rest ih =>
    simp only [List.flatMap_cons, List.map_append, ih, outIds]
    congr 1
    simp [createUnspents, List.map_map, Function.comp_def]

theorem contains_false_iff {us : List Ux} {id : Id} : contains us id = false ↔ id ∉ us.map (·.id) := by
  unfold contains
  constructor
  · intro h hm
    simp only [List.mem_map] at hm
    obtain ⟨u, hu, hid⟩ := hm
    have := List.any_eq_false.mp h u hu
    simp [hid] at this
  · intro h
    apply List.any_eq_false.mpr
    intro u hu
    have : u.id ≠ id := fun e => h (by rw [← e]; exact List.mem_map_of_mem hu)
    simpa using this

/-- what acceptance of a block certifies about the block — in ANY mode (arbitrating publisher or
ordinary node).  `HashInj`: the transactions of the block have distinct hashes unless identical
(collision freeness on this finite set); it is only needed to conclude, in arbitrating mode, that the
arbitrated list whose hashes equal the block's hashes IS the block's list. -/
theorem accepted_block_facts {s s' : State} {b g : Block} (hinj : HashInj b.txns)
    (hg : s.chain.head? = some g) (h : execSigned s b = .ok s') :
    (∀ t ∈ b.txns, verifyBlockTxn s t = .ok ()) ∧
      b.txns.Pairwise (fun a c => sharesInput a c = false) ∧ (outIds b.txns).Nodup ∧
      (∀ x ∈ outIds b.txns, contains s.unspent x = false) ∧
      s'.unspent = keptPool s b ++ blockCreated b := by
  obtain ⟨_, hpb, _, s1, hs1, hu, _⟩ := execSigned_ok h
  obtain ⟨_, _, ⟨txns, hpt, hsame⟩, _⟩ := processBlock_ok hg hpb
  obtain ⟨hv, hp, hn, hf⟩ := processTransactions_facts hpt
  have heq : txns = b.txns := same_of_sameTxns hinj (fun t ht => (hv t ht).1) hsame
  subst heq
  have := unspentProcessBlock_ok hs1
  exact ⟨fun t ht => (hv t ht).2, hp, hn, hf, by rw [hu]; exact this.2.2.1⟩

theorem exec_preserves_inv {s s' : State} {b g : Block} {G : Nat} (hinj : HashInj b.txns)
    (hg : s.chain.head? = some g) (hinv : Inv s G) (hwf : ∀ t ∈ b.txns, WfSound t)
    (h : execSigned s b = .ok s') : Inv s' G := by
  obtain ⟨hv, hp, hn, _, _⟩ := accepted_block_facts hinj hg h
  obtain ⟨_, hpb, _, s1, hs1, hu, _⟩ := execSigned_ok h
  obtain ⟨⟨spent, hsp, _⟩, htw, hun, _⟩ := unspentProcessBlock_ok hs1
  obtain ⟨hnd, hsum⟩ := hinv
  -- every transaction's inputs exist and balance its outputs
  have hbal : ∀ t ∈ b.txns, ∃ uxIn, getArray s.unspent t.ins = .ok uxIn ∧ coinsOfUx uxIn = coinsOfOuts t.outs := by
    intro t ht
    obtain ⟨uxIn, h1, _, h3, _⟩ := verifyBlockTxn_ok (hv t ht)
    exact ⟨uxIn, h1, h3⟩
  obtain ⟨l, hl1, hl2⟩ := getArray_block hbal
  have hsl : spent = l := by
    have : getArray s.unspent (blockInputs b) = .ok l := hl1
    rw [hsp] at this; cases this; rfl
  -- block inputs are pairwise distinct
  have hins : (blockInputs b).Nodup := by
    apply nodup_block_inputs _ hp
    intro t ht
    obtain ⟨_, _, hwfok, _, _⟩ := verifyBlockTxn_ok (hv t ht)
    exact hwf t ht hwfok
  have hsplit := coins_split hnd hins hsp
  constructor
  · -- ids stay unique
    rw [hu, hun, List.map_append, List.nodup_append]
    refine ⟨nodup_filter_ids _ hnd, ?_, ?_⟩
    · show ((blockCreated b).map (·.id)).Nodup
      unfold blockCreated; rw [created_ids]; exact hn
    · intro a ha c hc hac
      subst hac
      simp only [List.mem_map] at hc
      obtain ⟨u, hu1, hu2⟩ := hc
      have := List.any_eq_false.mp htw u hu1
      have := contains_false_iff.mp (by simpa using this)
      rw [hu2] at this
      exact this ha
  · -- coins are conserved (sums in ℕ)
    rw [hu, hun, coinsOfUx_append]
    have hc : coinsOfUx (blockCreated b) = blockOutCoins b.txns := created_coins _ _ _
    have : keptPool s b = s.unspent.filter (fun u => !(blockInputs b).contains u.id) := rfl
    rw [this, hc]
    rw [hsl] at hsplit
    omega

end Sky.Ledger
