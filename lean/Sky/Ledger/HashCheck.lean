/-
  Sky.Ledger.HashCheck — tightening the tie of the ledger model: the ids, hashes and sizes that the
  harness passes as annotations (computed by the REAL code) are recomputed here from the operation's raw
  bytes with the Lean codec (Sky.Codec, tied to the source by C21) and the Lean SHA-256 (Sky.Hash):
    transaction hash, size, input list, per-output id under the transaction's own hash, under the zero
    source hash and (in a block) under the block header incl. the genesis rule, snapshot hashes,
    inner hash, header hash, body (Merkle) hash.
  A difference means the real code derives an id/hash differently from the specification
  uxid = SHA256(enc UxBody), hash = SHA256(enc txn), ... — reported with the property it concerns.
  Signature recovery stays an annotation (C14/C10).
-/
import Sky.Codec.Basic
import Sky.Codec.Schemas
import Sky.Hash.Sha256
import Sky.Ledger.Model
import Sky.Prim.DrvLib
namespace Sky.Ledger.HashCheck
open Sky Sky.Codec Sky.Ledger

def pre (h : List Nat) : String := Sky.Drv.hexOf (h.take 8)
def hexNat (s : String) : Nat := s.toList.foldl (fun acc c => acc * 16 + (Sky.Drv.hexDigit? c).getD 0) 0
def zero32 : List Nat := List.replicate 32 0

abbrev TxnVal := Val Schemas.Transaction

def uxBodyHash (src : List Nat) (o : (Nat × Bytes) × Nat × Nat) : List Nat :=
  Sky.Hash.sha256 (enc Schemas.UxBody (src, o.1, o.2.1, o.2.2))

def snapHash (src : List Nat) (o : (Nat × Bytes) × Nat × Nat) (time seq : Nat) : List Nat :=
  Sky.Hash.sha256 (enc Schemas.UxBody (src, o.1, o.2.1, o.2.2) ++ enc Schemas.UxHead (time, seq))

/-- cipher.Merkle: pad with zero hashes to a power of two, then pairwise SHA256(a‖b) -/
partial def merkle (hs : List (List Nat)) : List Nat :=
  let rec np (k n : Nat) (fuel : Nat) : Nat := if fuel = 0 then k else if k < n then np (k * 2) n (fuel - 1) else k
  let n := np 1 hs.length 64
  let padded := hs ++ List.replicate (n - hs.length) zero32
  let rec level (l : List (List Nat)) : List (List Nat) :=
    match l with
    | a :: b :: rest => Sky.Hash.sha256 (a ++ b) :: level rest
    | _ => []
  let rec go (l : List (List Nat)) (fuel : Nat) : List Nat :=
    match l, fuel with
    | [h], _ => h
    | [], _ => zero32
    | _, 0 => zero32
    | l, f + 1 => go (level l) f
  go padded 64

/-- compare a transaction annotation with what its bytes say; `blk = some (time, seq)` in a block -/
def checkTxn (raw : List Nat) (tv : TxnVal) (a : Txn) (blk : Option (Nat × Nat)) : List String :=
  let (_len, _ty, inner, _sigs, ins, outs) := tv
  let h := Sky.Hash.sha256 raw
  let e1 := if pre h != a.hash then ["txn-hash"] else []
  let e2 := if some raw.length != a.size then ["txn-size"] else []
  let e3 := if ins.map pre != a.ins then ["txn-inputs"] else []
  let src : List Nat := match blk with | some (_, 0) => zero32 | _ => h
  let ids := outs.map fun o => pre (uxBodyHash src o)
  let e4 := if ids != a.outs.map (·.id) then ["uxid"] else []
  let cids := outs.map fun o => pre (uxBodyHash zero32 o)
  let e5 := if a.outs.all (fun o => o.cid == o.id) && blk.isSome then []   -- cid not annotated
            else if cids != a.outs.map (·.cid) then ["uxid-zero-src"] else []
  let e6 := if outs.map (fun o => (o.2.1, o.2.2)) != a.outs.map (fun o => (o.coins, o.hours)) then ["txn-outputs"] else []
  let e7 := match blk with
    | some (time, seq) =>
      let sn := outs.map fun o => hexNat (pre (snapHash src o time seq))
      if sn != a.outs.map (·.snap) then ["snapshot-hash"] else []
    | none => []
  -- inner hash: SHA256(enc ins ‖ enc outs); a well-formed verdict requires it to match
  let innerC := Sky.Hash.sha256 (enc Schemas.TransactionInputs ins ++ enc Schemas.TransactionOutputs outs)
  let e8 := if a.wf == "ok" && innerC != inner then ["inner-hash-accepted"]
            else if a.wf == "innerhash" && innerC == inner then ["inner-hash-rejected"] else []
  e1 ++ e2 ++ e3 ++ e4 ++ e5 ++ e6 ++ e7 ++ e8

/-- a transaction submitted on its own (pool context) -/
def checkTxnHex (hex : String) (a : Txn) : List String :=
  match Sky.Drv.hex? hex with
  | none => ["bad-hex"]
  | some raw =>
    match decExact Schemas.Transaction raw with
    | .error _ => []          -- the harness reports undecodable bytes itself
    | .ok tv => checkTxn raw tv a none

/-- a signed block: header fields, header hash, body hash and every transaction -/
def checkBlockHex (hex : String) (a : Block) : List String :=
  match Sky.Drv.hex? hex with
  | none => ["bad-hex"]
  | some raw =>
    match decExact Schemas.SignedBlock raw with
    | .error _ => []
    | .ok ((hdr, body), _sig) =>
      let (ver, time, seq, fee, prev, bodyh, uxh) := hdr
      let e1 := if (ver, time, seq, fee) != (a.ver, a.time, a.seq, a.fee) then ["header-fields"] else []
      let e2 := if (pre prev, pre bodyh, pre uxh) != (a.prev, a.body, a.uxh) then ["header-hash-fields"] else []
      let e3 := if pre (Sky.Hash.sha256 (enc Schemas.BlockHeader hdr)) != a.hh then ["header-hash"] else []
      let txRaw := body.map fun tv => enc Schemas.Transaction tv
      let e4 := if pre (merkle (txRaw.map Sky.Hash.sha256)) != a.cb then ["body-hash"] else []
      let e5 := if body.length != a.txns.length then ["txn-count"] else
        ((body.zip txRaw).zip a.txns).flatMap fun ((tv, r), at_) => checkTxn r tv at_ (some (time, seq))
      e1 ++ e2 ++ e3 ++ e4 ++ e5

end Sky.Ledger.HashCheck
