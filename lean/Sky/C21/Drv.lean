/-
  C21 driver.  For every op line of harness/c21 it prints what the Lean reference codec (`Sky.Codec`) says
  the two Go encoders must output, using the REGENERATED schema `ty_X` of the named codec
  (`Sky.Gen.Codecs.all`), and evaluates the property's own predicate on the implementation's output:

    enc NAME <value spec>   gen=<bytes|err K>|gsize=N|ref=<same|bytes>|rsize=N|short=K|rt=<ok|neq|err K>
    dec NAME <bytes>        gen=<ok n value|err K>|genx=<ok|err K>|ref=<same|…>|refx=…|deq=<1|0|->|reenc=<same|bytes|->

  verdict `fail`: the implementation's own output violates the property (generated ≠ reference on bytes,
  value, consumed length or error kind; a panic; a successful exact decode that does not re-encode to the
  input; generated size ≠ bytes written; encoder/decoder disagree about maxlen);
  `hold`: the implementation is self-consistent but differs from the model (model/correspondence broken).
-/
import Sky.Prim.DrvLib
import Sky.Codec.Text
import Sky.Gen.Codecs
namespace Sky.C21
open Sky Sky.Drv Sky.Codec

def lookup (name : String) : Option Ty :=
  (Sky.Gen.Codecs.all.find? (fun e => e.1 == name)).map (fun e => e.2.1)

def showDRes (t : Ty) (total : Nat) : DRes (Val t) → String
  | .ok v rest => "ok " ++ toString (total - rest.length) ++ " " ++ dumpStr t v
  | .err e _ => "err " ++ e.toString

def showExact {α} : Except DecErr α → String
  | .ok _ => "ok"
  | .error e => "err " ++ e.toString

def modelEnc (t : Ty) (v : Val t) : String :=
  let bytes := enc t v
  let sz := size t v
  let (gen, genOk) := match encG t v with
    | .ok b => (outHex b, true)
    | .error e => ("err " ++ e.toString, false)
  let ref := if genOk then "same" else outHex bytes
  let short := if sz = 0 then "none" else "ErrBufferUnderflow"
  let rt := match decGExact t bytes with
    | .ok v' => if veq t v v' then "ok" else "neq"
    | .error e => "err " ++ e.toString
  "gen=" ++ gen ++ "|gsize=" ++ toString sz ++ "|ref=" ++ ref ++ "|rsize=" ++ toString sz ++ "|short=" ++ short ++ "|rt=" ++ rt

def modelDec (t : Ty) (bs : Bytes) : String :=
  let n := bs.length
  let g := decG t bs
  let r := dec t bs
  let gen := showDRes t n g
  let ref0 := showDRes t n r
  let ref := if ref0 == gen then "same" else ref0
  let gx := exact g
  let deq := match g, r with
    | .ok v _, .ok w _ => if veq t v w then "1" else "0"
    | _, _ => "-"
  let reenc := match gx with
    | .ok v => (match encG t v with
      | .ok b => if b == bs then "same" else outHex b
      | .error e => "err " ++ e.toString)
    | .error _ => "-"
  "gen=" ++ gen ++ "|genx=" ++ showExact gx ++ "|ref=" ++ ref ++ "|refx=" ++ showExact (exact r) ++ "|deq=" ++ deq ++ "|reenc=" ++ reenc

def field (fs : List String) (k : String) : String :=
  match fs.find? (fun f => f.startsWith (k ++ "=")) with
  | some f => (f.drop (k.length + 1)).toString
  | none => "?"

/-- number of bytes denoted by an output byte string (hex, "-", or digest) -/
def outLen (s : String) : Option Nat :=
  if s == "-" then some 0
  else if s.startsWith "#" then ((s.drop 1).toString.splitOn ":").head?.bind String.toNat?
  else some (s.length / 2)

/-- the property's predicate on the implementation's own output -/
def propDec (impl : String) : Bool :=
  let fs := impl.splitOn "|"
  !(fs.any (fun f => f.endsWith "=panic")) && !impl.startsWith "panic" &&
  field fs "ref" == "same" && field fs "genx" == field fs "refx" &&
  (field fs "deq" == "1" || field fs "deq" == "-") &&
  (field fs "reenc" == "same" || field fs "reenc" == "-")

def propEnc (impl : String) : Bool :=
  let fs := impl.splitOn "|"
  let gen := field fs "gen"
  !(fs.any (fun f => f.endsWith "=panic")) && !impl.startsWith "panic" &&
  field fs "gsize" == field fs "rsize" &&
  (field fs "short" == "none" || field fs "short" == "ErrBufferUnderflow") &&
  (if gen.startsWith "err" then
      -- the encoder refuses: it must be the maxlen refusal, and the decoder must refuse the same value
      gen == "err ErrMaxLenExceeded" && field fs "rt" == "err ErrMaxLenExceeded"
   else
      field fs "ref" == "same" && outLen gen == (field fs "gsize").toNat? && field fs "rt" == "ok")

def step (op impl : String) : String × Verdict :=
  let bad := ("bad-op", Verdict.unknown)
  match op.splitOn " " with
  | "enc" :: name :: spec =>
    match lookup name with
    | none => bad
    | some t =>
      match parseVal t (spec.filter (· != "()")) with
      | some (v, []) =>
        let m := modelEnc t v
        if propEnc impl then (m, .hold) else (m ++ " [property violated by the implementation's output]", .fail)
      | _ => bad
  | ["dec", name, hex] =>
    match lookup name, parseBytes hex with
    | some t, some bs =>
      let m := modelDec t bs
      if propDec impl then (m, .hold) else (m ++ " [property violated by the implementation's output]", .fail)
    | _, _ => bad
  | _ => bad

end Sky.C21

def main : IO Unit := Sky.Drv.loopPure Sky.C21.step
