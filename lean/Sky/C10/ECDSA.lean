/-
  Sky.C10.ECDSA — ECDSA algebra in an abstract prime-order setting (Mathlib: ZMod n, modules).

  `G` is a module over the prime field `ZMod n` (every commutative group in which n•P = 0 for all P is
  one; a group of prime order n is the 1-dimensional case), `g : G` the base point, `x : G → ZMod n`
  the "abscissa mod n" map, of which only `x (−P) = x P` is ever used.  Nothing here is specific to
  secp256k1; that the secp256k1 point set with the chord–tangent law is such a structure (p, n prime;
  associativity) is the assumption recorded in DESIGN §3.
-/
import Mathlib.Algebra.Field.ZMod
import Mathlib.Algebra.Module.Basic
import Mathlib.Tactic.FieldSimp
import Mathlib.Tactic.Ring
import Mathlib.Tactic.Module

namespace Sky.C10.ECDSA

variable {n : ℕ} [Fact n.Prime] {G : Type*} [AddCommGroup G] [Module (ZMod n) G]

/-- public key of the secret scalar `d` -/
def pub (g : G) (d : ZMod n) : G := d • g

/-- the `s` of a signature on `z` with secret `d`, nonce `k`, where `r = x (k • g)` -/
def sOf (d z k r : ZMod n) : ZMod n := k⁻¹ * (z + r * d)

/-- textbook verification -/
def verify (g : G) (x : G → ZMod n) (Q : G) (z r s : ZMod n) : Prop :=
  r ≠ 0 ∧ s ≠ 0 ∧ x ((z * s⁻¹) • g + (r * s⁻¹) • Q) = r

/-- public-key recovery from the nonce point `R` -/
def recoverFrom (g : G) (R : G) (z r s : ZMod n) : G := r⁻¹ • (s • R - z • g)

/-- a correctly produced signature verifies -/
theorem verify_sign (g : G) (x : G → ZMod n) (d z k : ZMod n) (hk : k ≠ 0)
    (hr : x (k • g) ≠ 0) (hs : sOf d z k (x (k • g)) ≠ 0) :
    verify g x (pub g d) z (x (k • g)) (sOf d z k (x (k • g))) := by
  refine ⟨hr, hs, ?_⟩
  congr 1
  unfold pub
  rw [smul_smul, ← add_smul]
  have hzr : z + x (k • g) * d ≠ 0 := by
    intro h; apply hs; unfold sOf; rw [h, mul_zero]
  have : z * (sOf d z k (x (k • g)))⁻¹ + x (k • g) * (sOf d z k (x (k • g)))⁻¹ * d = k := by
    unfold sOf
    field_simp
  rw [this]

/-- … and the signer's key is recovered from it -/
theorem recover_sign (g : G) (x : G → ZMod n) (d z k : ZMod n) (hk : k ≠ 0) (hr : x (k • g) ≠ 0) :
    recoverFrom g (k • g) z (x (k • g)) (sOf d z k (x (k • g))) = pub g d := by
  unfold recoverFrom pub sOf
  rw [smul_smul, ← sub_smul, smul_smul]
  congr 1
  field_simp
  ring

/-- conversely a signature that verifies against `Q` recovers `Q` from its own nonce point -/
theorem recover_of_verify (g : G) (Q : G) (z r s : ZMod n) (hr : r ≠ 0) (hs : s ≠ 0) :
    recoverFrom g ((z * s⁻¹) • g + (r * s⁻¹) • Q) z r s = Q := by
  unfold recoverFrom
  have e : r⁻¹ • (s • ((z * s⁻¹) • g + (r * s⁻¹) • Q) - z • g)
      = (r⁻¹ * (s * (z * s⁻¹) - z)) • g + (r⁻¹ * (s * (r * s⁻¹))) • Q := by module
  have h1 : r⁻¹ * (s * (z * s⁻¹) - z) = 0 := by field_simp; ring
  have h2 : r⁻¹ * (s * (r * s⁻¹)) = 1 := by field_simp
  rw [e, h1, h2, zero_smul, zero_add, one_smul]

/-- ECDSA malleability: negating `s` preserves verification — so a rule on `s` is NECESSARY. -/
theorem negS_verifies (g : G) (x : G → ZMod n) (hx : ∀ P, x (-P) = x P) (Q : G) (z r s : ZMod n)
    (h : verify g x Q z r s) : verify g x Q z r (-s) := by
  obtain ⟨hr, hs, hv⟩ := h
  refine ⟨hr, neg_ne_zero.mpr hs, ?_⟩
  have : (z * (-s)⁻¹) • g + (r * (-s)⁻¹) • Q = -((z * s⁻¹) • g + (r * s⁻¹) • Q) := by
    rw [inv_neg, mul_neg, mul_neg, neg_smul, neg_smul, neg_add]
  rw [this, hx, hv]

/-- the malleated signature recovers the same key from the negated nonce point (recid bit 0 flipped) -/
theorem negS_recovers (g : G) (R : G) (z r s : ZMod n) :
    recoverFrom g (-R) z r (-s) = recoverFrom g R z r s := by
  unfold recoverFrom
  rw [neg_smul, smul_neg, neg_neg]

/-- flipping only the parity bit of the recovery id (same r, s; nonce point −R) recovers a DIFFERENT
key, unless the nonce point is the identity. -/
theorem recid_changes_key (g : G) (R : G) (z r s : ZMod n) (hr : r ≠ 0) (hs : s ≠ 0)
    (h2 : (2 : ZMod n) ≠ 0) (hR : R ≠ 0) :
    recoverFrom g (-R) z r s ≠ recoverFrom g R z r s := by
  unfold recoverFrom
  intro h
  have h' : r⁻¹ • (s • -R - z • g) - r⁻¹ • (s • R - z • g) = 0 := sub_eq_zero.mpr h
  rw [← smul_sub] at h'
  have e : s • -R - z • g - (s • R - z • g) = (-(2 * s)) • R := by module
  rw [e, smul_smul] at h'
  rcases smul_eq_zero.mp h' with h0 | h0
  · have : r⁻¹ * -(2 * s) ≠ 0 :=
      mul_ne_zero (inv_ne_zero hr) (neg_ne_zero.mpr (mul_ne_zero h2 hs))
    exact this h0
  · exact hR h0

/-- Diffie–Hellman: both sides compute the same point -/
theorem ecdh_comm (g : G) (a b : ZMod n) : a • pub g b = b • pub g a := by
  unfold pub; rw [smul_smul, smul_smul, mul_comm]

/-- BIP32: public derivation commutes with private derivation, `(il + k) • g = il • g + k • g` -/
theorem ckd_commutes (g : G) (il k : ZMod n) : pub g (il + k) = il • g + pub g k := by
  unfold pub; rw [add_smul]

/-- … and the two derivations FAIL together: the public sum is the identity exactly when the private sum is
zero (for a base point that is not the identity). -/
theorem ckd_fail_coincide (g : G) (hg : g ≠ 0) (il k : ZMod n) : il • g + pub g k = 0 ↔ il + k = 0 := by
  unfold pub
  rw [← add_smul]
  constructor
  · intro h
    rcases smul_eq_zero.mp h with h | h
    · exact h
    · exact absurd h hg
  · intro h; rw [h, zero_smul]

end Sky.C10.ECDSA
