/-
  Sky.C10.Reduction — non-malleability of whole signed objects, reduced to explicit assumptions
  (core Lean only).

  The transaction / block are abstract records whose fields mirror coin.Transaction and
  coin.SignedBlock; the encoder, the hashes and the signature predicate are PARAMETERS. Each assumption
  is a hypothesis of the theorem that uses it:

  * `canonical`   : exact decoding is canonical (C21/C09: `decodeTransactionExact b = ok t → enc t = b`)
  * `hInner_inj`, `msg_inj`, `hHeader_inj`, `hBody_inj` : the hashes are injective on the values that
                    occur (CollisionFree ∘ codec injectivity)
  * `suf`         : strong unforgeability — an accepted (address, message, signature) triple was
                    produced by the key's owner
  * `honest`      : the owners produced exactly the signatures of the original object

  Conclusion: any byte string that decodes to an accepted object in the same role is the original
  byte string.
-/
namespace Sky.C10.Reduction

structure Txn (In Out Sig Hash : Type) where
  length : Nat
  type : Nat
  inner : Hash
  sigs : List Sig
  ins : List In
  outs : List Out

section txn
variable {In Out Sig Hash Msg Addr Bytes : Type}
variable (enc : Txn In Out Sig Hash → List Nat)            -- Transaction.Serialize
variable (hInner : List In → List Out → Hash)              -- Transaction.HashInner
variable (msgOf : Hash → In → Msg)                         -- AddSHA256(innerHash, in)
variable (owner : In → Addr)                               -- address of the output being spent (ledger state)
variable (accepts : Addr → Msg → Sig → Prop)               -- cipher.VerifyAddressSignedHash = nil

/-- what `Transaction.Verify` + `VerifyInputSignatures` establish (the clauses the argument uses) -/
structure Accepted (t : Txn In Out Sig Hash) : Prop where
  hasInput : t.ins ≠ []
  lenOK : t.length = (enc t).length
  typeOK : t.type = 0
  innerOK : t.inner = hInner t.ins t.outs
  sigCount : t.sigs.length = t.ins.length
  insNodup : t.ins.Nodup
  sigsOK : ∀ i (h : i < t.ins.length) (h' : i < t.sigs.length),
    accepts (owner t.ins[i]) (msgOf t.inner t.ins[i]) t.sigs[i]

theorem txn_nonmalleable
    (decExact : List Nat → Option (Txn In Out Sig Hash))
    (canonical : ∀ b t, decExact b = some t → enc t = b)
    (encLen : ∀ t t' : Txn In Out Sig Hash, t.sigs = t'.sigs → t.ins = t'.ins → t.outs = t'.outs →
      (enc t).length = (enc t').length)
    (hInner_inj : ∀ i o i' o', hInner i o = hInner i' o' → i = i' ∧ o = o')
    (msg_inj : ∀ h i h' i', msgOf h i = msgOf h' i' → h = h' ∧ i = i')
    (Signed : Addr → Msg → Sig → Prop)
    (suf : ∀ a m σ, accepts a m σ → Signed a m σ)
    (t : Txn In Out Sig Hash) (ht : Accepted enc hInner msgOf owner accepts t)
    (honest : ∀ a m σ, Signed a m σ →
      ∃ i, ∃ (h : i < t.ins.length) (h' : i < t.sigs.length), a = owner t.ins[i] ∧ m = msgOf t.inner t.ins[i] ∧ σ = t.sigs[i])
    (b' : List Nat) (t' : Txn In Out Sig Hash) (hdec : decExact b' = some t')
    (ht' : Accepted enc hInner msgOf owner accepts t') :
    b' = enc t := by
  -- every signature of t' is one of t's, on one of t's messages
  have key : ∀ k (h : k < t'.ins.length) (h' : k < t'.sigs.length),
      ∃ i, ∃ (hi : i < t.ins.length) (hi' : i < t.sigs.length),
        t'.inner = t.inner ∧ t'.ins[k] = t.ins[i] ∧ t'.sigs[k] = t.sigs[i] := by
    intro k h h'
    obtain ⟨i, hi, hi', _, hm, hs⟩ := honest _ _ _ (suf _ _ _ (ht'.sigsOK k h h'))
    obtain ⟨e1, e2⟩ := msg_inj _ _ _ _ hm
    exact ⟨i, hi, hi', e1, e2, hs⟩
  -- t' has an input, so the inner hashes agree, hence inputs and outputs agree
  have hpos : 0 < t'.ins.length := List.length_pos_iff.mpr ht'.hasInput
  have hpos' : 0 < t'.sigs.length := by rw [ht'.sigCount]; exact hpos
  obtain ⟨_, _, _, hin, _, _⟩ := key 0 hpos hpos'
  have hio : t'.ins = t.ins ∧ t'.outs = t.outs := by
    apply hInner_inj
    rw [← ht'.innerOK, ← ht.innerOK, hin]
  -- distinct inputs pin every signature to its own index
  have hsigs : t'.sigs = t.sigs := by
    apply List.ext_getElem
    · rw [ht'.sigCount, ht.sigCount, hio.1]
    · intro k h1 h2
      have hk : k < t'.ins.length := by rw [← ht'.sigCount]; exact h1
      obtain ⟨i, hi, hi', _, hek, hes⟩ := key k hk h1
      have hk2 : k < t.ins.length := by rw [← hio.1]; exact hk
      have : t.ins[k] = t.ins[i] := by
        have : t'.ins[k] = t.ins[k] := by simp [hio.1]
        rw [← this]; exact hek
      have hki : k = i := (List.getElem_inj ht.insNodup).mp this
      subst hki
      exact hes
  have hlen : t'.length = t.length := by
    rw [ht'.lenOK, ht.lenOK]; exact encLen _ _ hsigs hio.1 hio.2
  have : t' = t := by
    cases t; cases t'
    simp only at hlen hin hio hsigs
    have h1 := ht'.typeOK; have h2 := ht.typeOK
    simp only at h1 h2
    simp [hlen, h1, h2, hin, hsigs, hio.1, hio.2]
  rw [← canonical b' t' hdec, this]

end txn

structure SBlock (Hdr Body Sig : Type) where
  head : Hdr
  body : Body
  sig : Sig

section block
variable {Hdr Body Sig Hash : Type}
variable (hashHeader : Hdr → Hash) (hashBody : Body → Hash) (bodyHashOf : Hdr → Hash) (seqOf : Hdr → Nat)
variable (accepts : Hash → Sig → Prop)        -- VerifyPubKeySignedHash(publisher, sig, hash) = nil

/-- what the node checks of a signed block that it appends at height `seq` -/
structure BlockAccepted (seq : Nat) (b : SBlock Hdr Body Sig) : Prop where
  sigOK : accepts (hashHeader b.head) b.sig
  bodyOK : bodyHashOf b.head = hashBody b.body
  seqOK : seqOf b.head = seq

theorem block_nonmalleable
    (enc : SBlock Hdr Body Sig → List Nat) (decExact : List Nat → Option (SBlock Hdr Body Sig))
    (canonical : ∀ x b, decExact x = some b → enc b = x)
    (hHeader_inj : ∀ h h', hashHeader h = hashHeader h' → h = h')
    (hBody_inj : ∀ y y', hashBody y = hashBody y' → y = y')
    (Signed : Hash → Sig → Prop) (suf : ∀ m σ, accepts m σ → Signed m σ)
    (published : List (SBlock Hdr Body Sig))
    (honest : ∀ m σ, Signed m σ → ∃ p ∈ published, m = hashHeader p.head ∧ σ = p.sig)
    (onePerSeq : ∀ p ∈ published, ∀ q ∈ published, seqOf p.head = seqOf q.head → p = q)
    (seq : Nat) (b : SBlock Hdr Body Sig) (hb : b ∈ published)
    (hacc : BlockAccepted hashHeader hashBody bodyHashOf seqOf accepts seq b)
    (x' : List Nat) (b' : SBlock Hdr Body Sig) (hdec : decExact x' = some b')
    (hacc' : BlockAccepted hashHeader hashBody bodyHashOf seqOf accepts seq b') :
    x' = enc b := by
  obtain ⟨p, hp, hm, hs⟩ := honest _ _ (suf _ _ hacc'.sigOK)
  have hh : b'.head = p.head := hHeader_inj _ _ hm
  have hpb : p = b := onePerSeq p hp b hb (by rw [← hh, hacc'.seqOK, hacc.seqOK])
  subst hpb
  have hbody : b'.body = p.body := by
    apply hBody_inj
    rw [← hacc'.bodyOK, ← hacc.bodyOK, hh]
  have : b' = p := by
    cases b'; cases p
    simp only at hh hs hbody
    simp [hh, hs, hbody]
  rw [← canonical x' b' hdec, this]

end block

end Sky.C10.Reduction
