/-
  Sky.C10.Model — byte-level model of the signature acceptance rules
  (`secp256k1.VerifySignatureValidity`, the same tests inside `VerifySignature`), driven by the list
  of tests the translator finds in the CURRENT source (Sky.Gen.SigConsts), and the cipher-level
  verification functions on top of the textbook curve.  Core Lean only.
-/
import Sky.Prim.Res
import Sky.C14.Spec
import Sky.Gen.SigConsts
namespace Sky.C10
open Sky Sky.Crypto.Secp256k1 Sky.Gen.SigConsts

/-- Go `bytes.Compare(a, b) > 0` -/
def lexGt : List Nat → List Nat → Bool
  | [], _ => false
  | _ :: _, [] => true
  | a :: as, b :: bs => if a > b then true else if a < b then false else lexGt as bs

/-- `sig[32:64]` -/
def sigS (sig : Bytes) : Bytes := (sig.drop 32).take 32

/-- one rejection test, by the name the translator gives it (true = reject) -/
def shapeTest (sig : Bytes) (name : String) : Bool :=
  if name == "highbit" then (sig.getD 32 0) >>> 7 == 1
  else if name == "halforder" then lexGt (sigS sig) wrapperHalfOrder
  else if name == "recid" then sig.getD 64 0 ≥ 4
  else true

/-- `VerifySignatureValidity`: 1 = acceptable shape, 0 = rejected; wrong length panics -/
def sigValidity (sig : Bytes) : Res Nat :=
  if sig.length ≠ 65 then .panic "VerifySignatureValidity: sig len is not 65 bytes"
  else if validityTests.any (shapeTest sig) then .ok 0 else .ok 1

/-- the shape tests repeated inside `VerifySignature` -/
def verifyShapeOK (sig : Bytes) : Bool := !(verifyTests.any (shapeTest sig))

/-- `secp256k1.VerifySignature(msg, sig, pubkey)` for 32/65/33-byte arguments: shape, then recovery must
return exactly `pubkey`. (`rec` = the result of `RecoverPubkey(msg, sig)`, a pure function of the arguments,
passed in so that it is computed once.) -/
def verifySignatureWith (rec : Option Bytes) (sig pub : Bytes) : Nat :=
  if !verifyShapeOK sig then 0
  else match rec with
    | none => 0
    | some p => if p == pub then 1 else 0

def verifySignature (hash sig pub : Bytes) : Nat :=
  verifySignatureWith (Sky.C14.recoverPubkey sig hash) sig pub

/-- `cipher.VerifyPubKeySignedHash` as the CODE composes it (recover, compare, validity, verify) -/
def verifyPubKeySignedHashWith (rec : Option Bytes) (pub sig : Bytes) : Res Unit :=
  match rec with
  | none => .err (.named "ErrInvalidSigPubKeyRecovery")
  | some p =>
    if p ≠ pub then .err (.named "ErrPubKeyRecoverMismatch")
    else match sigValidity sig with
      | .ok 1 => if verifySignatureWith rec sig pub == 1 then .ok () else .err (.named "ErrInvalidSigForMessage")
      | .ok _ => .err (.named "ErrInvalidSigValidity")
      | .err e => .err e
      | .panic p => .panic p

def verifyPubKeySignedHash (pub sig hash : Bytes) : Res Unit :=
  verifyPubKeySignedHashWith (Sky.C14.recoverPubkey sig hash) pub sig

/-- `cipher.VerifyAddressSignedHash(addr, sig, hash)` with the address given as (version, key) and
`addrOf` = RIPEMD160∘SHA256² supplied by the caller. -/
def verifyAddressSignedHashWith (rec : Option Bytes) (addrOf : Bytes → Bytes) (ver : Nat) (key : Bytes) (sig : Bytes) : Res Unit :=
  match rec with
  | none => .err (.named "ErrInvalidSigPubKeyRecovery")
  | some p =>
    if ver ≠ 0 ∨ key ≠ addrOf p then .err (.named "ErrInvalidAddressForSig")
    else if verifySignatureWith rec sig p == 1 then .ok () else .err (.named "ErrInvalidHashForSig")

def verifyAddressSignedHash (addrOf : Bytes → Bytes) (ver : Nat) (key : Bytes) (sig hash : Bytes) : Res Unit :=
  verifyAddressSignedHashWith (Sky.C14.recoverPubkey sig hash) addrOf ver key sig

end Sky.C10
