/-
  C10 driver (stateful: remembers the pending block of the current case).

  * `sigvalid`, `pubverify`, `addrverify`: the PROPERTY-level answer (low s, recid < 4, textbook recovery);
    a different implementation answer is a failure of the property. The code-shaped model (tests found
    by the translator in the current source) is evaluated too; if only it differs: `model-mismatch`.
  * `rawsign` / `signhash`: textbook signature bytes (nonce read back for `signhash`), and the produced
    signature must itself be low-s with recid < 4.
  * `txn ux orig mut`, `blockexec mut` (after `mkblock`): the property itself — accepted iff the bytes
    are the original's.
-/
import Sky.Prim.DrvLib
import Sky.C10.Model
import Sky.Hash.All
namespace Sky.C10
open Sky Sky.Drv Sky.Crypto.Secp256k1
open Sky.Hash (sha256 ripemd160)

def showU : Res Unit → String := showRes (fun _ => "")
def addrOf (pub : Bytes) : Bytes := ripemd160 (sha256 (sha256 pub))

/-- property-level `VerifyAddressSignedHash` -/
def specAddrVerify (rec : Option Bytes) (ver : Nat) (key sig : Bytes) : Res Unit :=
  match rec with
  | none => .err (.named "ErrInvalidSigPubKeyRecovery")
  | some p =>
    if ver ≠ 0 ∨ key ≠ addrOf p then .err (.named "ErrInvalidAddressForSig")
    else if !Sky.C14.sigWellFormed (Sky.C14.parseSig sig) then .err (.named "ErrInvalidHashForSig")
    else .ok ()

def sigBytes (g : Sig) : Bytes := toBE32 g.r ++ toBE32 g.s

def reproduces (d z : Nat) (sig : Bytes) : Bool :=
  let g := Sky.C14.parseSig sig
  if g.r == 0 || g.s == 0 || g.r ≥ N || g.s ≥ N then false
  else
    let k1 := invMod g.s N * ((g.r * d + z) % N) % N
    let tryK (k : Nat) : Bool :=
      if k == 0 then false else
      match sign d z k with
      | some sg => sigBytes sg ++ [sg.recid] == sig
      | none => false
    tryK k1 || tryK (N - k1)

/-- driver state: pending block of the case; one-entry cache of the last public-key recovery (the
generator asks `pubverify` and `addrverify` about the same signature and message back to back) -/
structure St where
  pending : String := ""
  key : String := ""
  rcv : Option Bytes := none

def recoverCached (st : St) (s z : String) : St × Option Bytes :=
  let k := s ++ "/" ++ z
  if k == st.key then (st, st.rcv)
  else
    let r := Sky.C14.recoverPubkey ((hex? s).getD []) ((hex? z).getD [])
    ({ st with key := k, rcv := r }, r)

/-- returns (state, property answer, code-model answer if a distinct notion exists) -/
def answer (st : St) (op impl : String) : St × String × Option String :=
  let pending := st.pending
  let h (s : String) := (hex? s).getD []
  match op.splitOn " " with
  | ["sigvalid", s] =>
    let g := Sky.C14.parseSig (h s)
    (st, (if (h s).length == 65 then (if Sky.C14.sigWellFormed g then "ok 1" else "ok 0") else "panic"),
     some (showRes toString (sigValidity (h s))))
  | ["pubverify", p, s, z] =>
    let (st, rcv) := recoverCached st s z
    (st, showU (Sky.C14.verifyPubKeySignedHashWith rcv (h p) (h s)), some (showU (verifyPubKeySignedHashWith rcv (h p) (h s))))
  | ["addrverify", v, k, s, z] =>
    let (st, rcv) := recoverCached st s z
    (st, showU (specAddrVerify rcv v.toNat! (h k) (h s)), some (showU (verifyAddressSignedHashWith rcv addrOf v.toNat! (h k) (h s))))
  | ["rawsign", d, z, k] =>
    (st, match sign (ofBE (h d)) (ofBE (h z)) (ofBE (h k)) with
     | some sg => "ok " ++ hexOf (sigBytes sg) ++ " " ++ toString sg.recid
     | none => "fail", none)
  | ["signhash", d, z] =>
    (st, if !secValid (h d) then "err ErrInvalidSecKey"
     else if (h z).all (· == 0) then "err ErrNullSignHash"
     else match impl.splitOn " " with
      | ["ok", s] =>
        if (h s).length == 65 && reproduces (ofBE (h d)) (ofBE (h z)) (h s) && Sky.C14.sigWellFormed (Sky.C14.parseSig (h s))
        then impl else "ok <a low-s textbook signature with recid < 4>"
      | _ => "ok <signature>", none)
  | ["txn", _, orig, mutd] =>
    (st, if orig == mutd then "accept" else (if impl.startsWith "reject" then impl else "reject"), none)
  | ["genesis", p, s, z] =>
    let (st, rcv) := recoverCached st s z
    (st, (match Sky.C14.verifyPubKeySignedHashWith rcv (h p) (h s) with
          | .ok _ => "accept"
          | _ => "reject init"), none)
  | ["reset"] => (st, "ok", none)
  | ["mkblock", _] => (st, (if impl.startsWith "ok " then impl else "ok <block>"), none)
  | ["blockexec", mutd] =>
    (st, if mutd == pending then "accept" else (if impl.startsWith "reject" then impl else "reject"), none)
  | _ => (st, "bad-op", none)

def step (st : St) (op impl : String) : St × String × Verdict :=
  let (st, spec, model) := answer st op impl
  let pending' : St :=
    if op.startsWith "mkblock" then { st with pending := (match impl.splitOn " " with | ["ok", b] => b | _ => "") }
    else if op == "reset" then { st with pending := "" } else st
  if spec != normImpl impl then (pending', spec, .fail)
  else match model with
    | some m => if m == spec then (pending', spec, .hold) else (pending', "model-mismatch code-model=" ++ m ++ " spec=" ++ spec, .unknown)
    | none => (pending', spec, .hold)

end Sky.C10

def main : IO Unit := Sky.Drv.loop (σ := Sky.C10.St) Sky.C10.step {}
