/-
  Sky.C10.Lemmas — big-endian byte lemmas for the signature-shape theorems (core Lean only).
-/
import Sky.C10.Model
namespace Sky.C10
open Sky Sky.Crypto.Secp256k1

def IsBytes (bs : Bytes) : Prop := ∀ b ∈ bs, b < 256

theorem ofBE_foldl (bs : Bytes) (a : Nat) :
    bs.foldl (fun a b => a * 256 + b % 256) a = a * 256 ^ bs.length + ofBE bs := by
  induction bs generalizing a with
  | nil => simp [ofBE]
  | cons d r ih =>
    simp only [List.foldl_cons, List.length_cons, ofBE]
    rw [ih (a * 256 + d % 256), ih (0 * 256 + d % 256)]
    simp only [Nat.zero_mul, Nat.zero_add, Nat.pow_succ]
    rw [Nat.add_mul, Nat.add_assoc, Nat.mul_assoc, Nat.mul_comm 256]

theorem ofBE_cons (b : Nat) (r : Bytes) : ofBE (b :: r) = (b % 256) * 256 ^ r.length + ofBE r := by
  simp only [ofBE, List.foldl_cons]
  rw [ofBE_foldl]; simp [ofBE]

theorem ofBE_lt (r : Bytes) : ofBE r < 256 ^ r.length := by
  induction r with
  | nil => simp [ofBE]
  | cons b t ih =>
    rw [ofBE_cons, List.length_cons, Nat.pow_succ]
    have h1 : b % 256 < 256 := Nat.mod_lt _ (by decide)
    have h2 : (b % 256) * 256 ^ t.length ≤ 255 * 256 ^ t.length := Nat.mul_le_mul_right _ (by omega)
    omega

/-- lexicographic order of equal-length byte strings is the numeric order of their big-endian values -/
theorem lexGt_iff : ∀ (a b : Bytes), a.length = b.length → IsBytes a → IsBytes b →
    (lexGt a b = true ↔ ofBE b < ofBE a)
  | [], [], _, _, _ => by simp [lexGt, ofBE]
  | [], _ :: _, h, _, _ => by simp at h
  | _ :: _, [], h, _, _ => by simp at h
  | x :: as, y :: bs, h, ha, hb => by
    have hl : as.length = bs.length := by simpa using h
    have hx : x < 256 := ha x (by simp)
    have hy : y < 256 := hb y (by simp)
    have ih := lexGt_iff as bs hl (fun c hc => ha c (by simp [hc])) (fun c hc => hb c (by simp [hc]))
    rw [ofBE_cons, ofBE_cons, Nat.mod_eq_of_lt hx, Nat.mod_eq_of_lt hy, hl]
    have la := ofBE_lt as
    have lb := ofBE_lt bs
    rw [hl] at la
    simp only [lexGt]
    by_cases hgt : x > y
    · simp only [hgt, if_true, true_iff]
      have : (y + 1) * 256 ^ bs.length ≤ x * 256 ^ bs.length := Nat.mul_le_mul_right _ (by omega)
      rw [Nat.add_mul, Nat.one_mul] at this
      omega
    · simp only [hgt, if_false]
      by_cases hlt : x < y
      · simp only [hlt, if_true]
        have : (x + 1) * 256 ^ bs.length ≤ y * 256 ^ bs.length := Nat.mul_le_mul_right _ (by omega)
        rw [Nat.add_mul, Nat.one_mul] at this
        constructor
        · intro h; cases h
        · intro h; omega
      · have : x = y := by omega
        subst this
        simp only [Nat.lt_irrefl, if_false]
        rw [ih]; omega

theorem sigS_length (sig : Bytes) (hl : sig.length = 65) : (sigS sig).length = 32 := by
  simp [sigS, hl]

theorem sigS_isBytes (sig : Bytes) (hb : IsBytes sig) : IsBytes (sigS sig) := by
  intro b h
  exact hb b (List.mem_of_mem_drop (List.mem_of_mem_take h))

/-- `sig[32]` is the first byte of `sig[32:64]` -/
theorem sigS_cons (sig : Bytes) (hl : sig.length = 65) :
    ∃ rest, sigS sig = sig.getD 32 0 :: rest ∧ rest.length = 31 := by
  have h32 : 32 < sig.length := by omega
  have hd : sig.drop 32 = sig[32] :: sig.drop 33 := List.drop_eq_getElem_cons h32
  refine ⟨(sig.drop 33).take 31, ?_, by simp [hl]⟩
  unfold sigS
  rw [hd, List.take_succ_cons, List.getD_eq_getElem?_getD, List.getElem?_eq_getElem h32]
  rfl

end Sky.C10
