/-
  C18 — helper lemmas: base64 output length, partial slices, panic-freedom of the stages,
  lookup lemmas for unlock∘lock.
-/
import Sky.C18.Model
namespace Sky.C18
open Sky

/-! ### Res.bind and panics -/

theorem bind_panic {α β} {x : Res α} {f : α → Res β} {t : String}
    (h : x.bind f = .panic t) : x = .panic t ∨ ∃ a, x = .ok a ∧ f a = .panic t := by
  cases x with
  | ok a => exact Or.inr ⟨a, rfl, by simpa [Res.bind] using h⟩
  | err e => simp [Res.bind] at h
  | panic p => left; simpa [Res.bind] using h

/-! ### base64: the decoder never produces more than DecodedLen bytes -/

theorem b64go_length : ∀ (n : Nat) (s r : Bytes), s.length ≤ n → b64go s = some r → r.length ≤ s.length / 4 * 3 := by
  intro n
  induction n with
  | zero =>
    intro s r hs h
    have : s = [] := List.eq_nil_of_length_eq_zero (by omega)
    subst this; simp [b64go] at h; subst h; simp
  | succ n ih =>
    intro s r hs h
    match s, h with
    | [], h => simp [b64go] at h; subst h; simp
    | [_], h => simp [b64go] at h
    | [_, _], h => simp [b64go] at h
    | [_, _, _], h => simp [b64go] at h
    | a :: b :: c :: d :: rest, h =>
      unfold b64go at h
      split at h
      · split at h
        · split at h
          · simp at h; subst h; simp; omega
          · simp at h
        · split at h
          · simp at h
          · split at h
            · split at h
              · simp at h; subst h; simp; omega
              · simp at h
            · split at h
              · simp at h
              · split at h
                · simp at h
                · rename_i r' hr'
                  simp at h; subst h
                  have := ih rest r' (by simp at hs; omega) hr'
                  simp
                  omega
      · simp at h

theorem filter_length_le (p : Nat → Bool) (l : Bytes) : (l.filter p).length ≤ l.length :=
  List.length_filter_le p l

theorem b64decode_length {data raw : Bytes} (h : b64decode data = some raw) :
    raw.length ≤ decodedLen data.length := by
  unfold b64decode at h
  have h1 := b64go_length _ _ _ (Nat.le_refl _) h
  have h2 := filter_length_le notNL data
  unfold decodedLen
  have : (List.filter notNL data).length / 4 ≤ data.length / 4 := Nat.div_le_div_right h2
  omega

/-! ### partial slices -/

theorem slice_ok (s : GoSlice) (i j : Nat) (h1 : i ≤ j) (h2 : j ≤ s.cap) :
    s.slice i j = .ok ⟨s.arr.drop i, j - i⟩ := by
  simp [GoSlice.slice, h1, h2]

theorem slice_panic_iff (s : GoSlice) (i j : Nat) (t : String) :
    s.slice i j = .panic t → ¬ (i ≤ j ∧ j ≤ s.cap) := by
  intro h hc
  simp [GoSlice.slice, hc] at h

theorem slice_cap (s : GoSlice) (i j : Nat) (r : GoSlice) (h : s.slice i j = .ok r) :
    r.cap = s.cap - i ∧ r.len = j - i ∧ i ≤ j ∧ j ≤ s.cap := by
  unfold GoSlice.slice at h
  split at h
  · rename_i hc
    simp at h; subst h
    obtain ⟨hc1, hc2⟩ := hc
    simp only [GoSlice.cap] at hc2
    simp only [GoSlice.cap, List.length_drop]
    exact ⟨trivial, trivial, hc1, hc2⟩
  · simp at h

theorem decodeBuf_cap (data raw : Bytes) : (decodeBuf data raw).cap = decodedLen data.length := by
  simp [decodeBuf, GoSlice.cap]; omega

/-- the decode stage never panics, and its result has `len ≤ cap` -/
theorem decodeStage_ok (data : Bytes) :
    (∀ t, decodeStage data ≠ .panic t) ∧ ∀ s, decodeStage data = .ok s → s.len ≤ s.cap := by
  unfold decodeStage
  cases h : b64decode data with
  | none => simp
  | some raw =>
    have hl := b64decode_length h
    have hc := decodeBuf_cap data raw
    simp only
    rw [slice_ok _ _ _ (Nat.zero_le _) (by rw [hc]; exact hl)]
    refine ⟨by intro t; simp, ?_⟩
    intro s hs
    simp at hs; subst hs
    simp [GoSlice.cap]
    have : (decodeBuf data raw).arr.length = decodedLen data.length := hc
    omega

/-! ### scrypt.Key and aead.Open -/

def MemOK (m : Meta) : Prop :=
  4 * (64 * m.R) ≤ maxAlloc ∧ 4 * (32 * m.N * m.R) ≤ maxAlloc ∧ m.P * 128 * m.R + 32 ≤ maxAlloc

theorem panic_ne_err {α} {e : Err} {t : String} : (Res.err e : Res α) = .panic t → False := by intro h; cases h
theorem panic_ne_ok {α} {a : α} {t : String} : (Res.ok a : Res α) = .panic t → False := by intro h; cases h
theorem panic_inj {α} {s t : String} : (Res.panic s : Res α) = .panic t → s = t := by intro h; cases h; rfl

theorem scryptKey_panic_alloc (E : SEnv) (pw salt : Bytes) (N r p keyLen : Int) (hr : 0 < r) (hp : 0 < p)
    (hk : keyLen = 32) (t : String) (h : scryptKey E pw salt N r p keyLen = .panic t) : t = "alloc" := by
  unfold scryptKey at h
  by_cases c1 : N ≤ 1 ∨ (N.toNat &&& (N.toNat - 1)) ≠ 0
  · rw [if_pos c1] at h; exact (panic_ne_err h).elim
  rw [if_neg c1] at h
  by_cases c2 : (toU64 r * toU64 p) % 2^64 ≥ 2^30
  · rw [if_pos c2] at h; exact (panic_ne_err h).elim
  rw [if_neg c2] at h
  have c3 : ¬ p = 0 := by omega
  rw [if_neg c3] at h
  by_cases c4 : r > Int.tdiv (Int.tdiv maxInt 128) p
  · rw [if_pos c4] at h; exact (panic_ne_err h).elim
  rw [if_neg c4] at h
  by_cases c5 : r > Int.tdiv maxInt 256
  · rw [if_pos c5] at h; exact (panic_ne_err h).elim
  rw [if_neg c5] at h
  have c6 : ¬ r = 0 := by omega
  rw [if_neg c6] at h
  by_cases c7 : N > Int.tdiv (Int.tdiv maxInt 128) r
  · rw [if_pos c7] at h; exact (panic_ne_err h).elim
  rw [if_neg c7] at h
  by_cases c8 : 64 * r < 0 ∨ 4 * (64 * r) > maxAlloc
  · rw [if_pos c8] at h; exact (panic_inj h).symm
  rw [if_neg c8] at h
  by_cases c9 : 32 * N * r < 0 ∨ 4 * (32 * N * r) > maxAlloc
  · rw [if_pos c9] at h; exact (panic_inj h).symm
  rw [if_neg c9] at h
  by_cases c10 : p * 128 * r < 0 ∨ p * 128 * r + 32 > maxAlloc
  · rw [if_pos c10] at h; exact (panic_inj h).symm
  rw [if_neg c10] at h
  have c11 : ¬ keyLen < 0 := by omega
  rw [if_neg c11] at h
  by_cases c12 : keyLen + 32 > maxAlloc
  · rw [if_pos c12] at h; exact (panic_inj h).symm
  rw [if_neg c12] at h
  exact (panic_ne_ok h).elim

theorem scryptKey_no_panic (E : SEnv) (pw salt : Bytes) (m : Meta) (hr : 0 < m.R) (hp : 0 < m.P)
    (hk : m.KeyLen = 32) (hm : MemOK m) (t : String) :
    scryptKey E pw salt m.N m.R m.P m.KeyLen ≠ .panic t := by
  intro h
  obtain ⟨h1, h2, h3⟩ := hm
  have ht := scryptKey_panic_alloc E pw salt m.N m.R m.P m.KeyLen hr hp hk t h
  subst ht
  unfold scryptKey at h
  by_cases c1 : m.N ≤ 1 ∨ (m.N.toNat &&& (m.N.toNat - 1)) ≠ 0
  · rw [if_pos c1] at h; exact panic_ne_err h
  rw [if_neg c1] at h
  have hN : 1 < m.N := by
    have := not_or.mp c1
    omega
  by_cases c2 : (toU64 m.R * toU64 m.P) % 2^64 ≥ 2^30
  · rw [if_pos c2] at h; exact panic_ne_err h
  rw [if_neg c2] at h
  have c3 : ¬ m.P = 0 := by omega
  rw [if_neg c3] at h
  by_cases c4 : m.R > Int.tdiv (Int.tdiv maxInt 128) m.P
  · rw [if_pos c4] at h; exact panic_ne_err h
  rw [if_neg c4] at h
  by_cases c5 : m.R > Int.tdiv maxInt 256
  · rw [if_pos c5] at h; exact panic_ne_err h
  rw [if_neg c5] at h
  have c6 : ¬ m.R = 0 := by omega
  rw [if_neg c6] at h
  by_cases c7 : m.N > Int.tdiv (Int.tdiv maxInt 128) m.R
  · rw [if_pos c7] at h; exact panic_ne_err h
  rw [if_neg c7] at h
  have hNR : 0 ≤ m.N * m.R := Int.mul_nonneg (by omega) (by omega)
  have hPR : 0 ≤ m.P * m.R := Int.mul_nonneg (by omega) (by omega)
  have e1 : 32 * m.N * m.R = 32 * (m.N * m.R) := Int.mul_assoc _ _ _
  have e2 : m.P * 128 * m.R = 128 * (m.P * m.R) := by rw [Int.mul_comm m.P 128, Int.mul_assoc]
  have c8 : ¬ (64 * m.R < 0 ∨ 4 * (64 * m.R) > maxAlloc) := by omega
  rw [if_neg c8] at h
  have c9 : ¬ (32 * m.N * m.R < 0 ∨ 4 * (32 * m.N * m.R) > maxAlloc) := by omega
  rw [if_neg c9] at h
  have c10 : ¬ (m.P * 128 * m.R < 0 ∨ m.P * 128 * m.R + 32 > maxAlloc) := by omega
  rw [if_neg c10] at h
  have c11 : ¬ m.KeyLen < 0 := by omega
  rw [if_neg c11] at h
  have c12 : ¬ m.KeyLen + 32 > maxAlloc := by simp [maxAlloc, hk]
  rw [if_neg c12] at h
  exact panic_ne_ok h

theorem aeadOpen_no_panic (E : SEnv) (key nonce ct ad : Bytes) (hn : nonce.length = 12)
    (hc : ct.length ≤ 2^38 - 48) (t : String) : aeadOpen E key nonce ct ad ≠ .panic t := by
  intro h
  unfold aeadOpen at h
  by_cases c1 : key.length ≠ 32
  · rw [if_pos c1] at h; exact panic_ne_err h
  rw [if_neg c1] at h
  have c2 : ¬ nonce.length ≠ 12 := by omega
  rw [if_neg c2] at h
  by_cases c3 : ct.length < 16
  · rw [if_pos c3] at h; exact panic_ne_err h
  rw [if_neg c3] at h
  have c4 : ¬ ct.length > 2^38 - 48 := by omega
  rw [if_neg c4] at h
  cases ho : E.openCore key nonce ct ad <;> simp [ho] at h

/-! ### lookups for unlock ∘ lock -/

/-- keys determine values: what a map built by `Set` calls represents -/
def FunctionalS (l : List (String × String)) : Prop :=
  ∀ k v v', (k, v) ∈ l → (k, v') ∈ l → v = v'
def FunctionalE (l : List Entry) : Prop :=
  ∀ e e', e ∈ l → e' ∈ l → e.addr = e'.addr → e.sec = e'.sec

theorem lookupS_mem {l : List (String × String)} (hf : FunctionalS l) {k v} (h : (k, v) ∈ l) :
    lookupS k l = some v := by
  induction l with
  | nil => simp at h
  | cons x r ih =>
    obtain ⟨a, b⟩ := x
    unfold lookupS
    by_cases hk : a = k
    · subst hk
      have : b = v := hf a b v (by simp) h
      simp [this]
    · simp only [hk, if_false]
      have hm : (k, v) ∈ r := by
        rcases List.mem_cons.mp h with e | e
        · exact absurd (by injection e with e1 _; exact e1.symm) hk
        · exact e
      exact ih (fun k v v' h1 h2 => hf k v v' (List.mem_cons_of_mem _ h1) (List.mem_cons_of_mem _ h2)) hm

theorem lookupB_mem {l : List Entry} (hf : FunctionalE l) {e : Entry} (h : e ∈ l) :
    lookupB e.addr (l.map fun e => (e.addr, e.sec)) = some e.sec := by
  induction l with
  | nil => simp at h
  | cons x r ih =>
    simp only [List.map_cons]
    unfold lookupB
    by_cases hk : x.addr = e.addr
    · have : x.sec = e.sec := hf x e (by simp) h hk
      simp [hk, this]
    · simp only [hk, if_false]
      have hm : e ∈ r := by
        rcases List.mem_cons.mp h with e1 | e1
        · exact absurd (by rw [e1]) hk
        · exact e1
      exact ih (fun a b h1 h2 => hf a b (List.mem_cons_of_mem _ h1) (List.mem_cons_of_mem _ h2)) hm

theorem unpackStrs_erased (ss : List (String × String)) (hf : FunctionalS ss) :
    ∀ l : List (String × String), (∀ kv ∈ l, kv ∈ ss) → unpackStrs ss (l.map eraseStr) = .ok l := by
  intro l
  induction l with
  | nil => intro _; rfl
  | cons x r ih =>
    intro h
    obtain ⟨k, v⟩ := x
    have hx := lookupS_mem hf (h (k, v) (by simp))
    have hr := ih (fun kv hkv => h kv (List.mem_cons_of_mem _ hkv))
    simp only [List.map_cons, eraseStr, unpackStrs, hx]
    have hr' : unpackStrs ss (List.map eraseStr r) = .ok r := hr
    rw [hr']

theorem unpackEntries_erased (all : List Entry) (hf : FunctionalE all) :
    ∀ l : List Entry, (∀ e ∈ l, e ∈ all) →
      unpackEntries (all.map fun e => (e.addr, e.sec)) (l.map eraseEntry) = .ok l := by
  intro l
  induction l with
  | nil => intro _; rfl
  | cons x r ih =>
    intro h
    have hx := lookupB_mem hf (h x (by simp))
    have hr := ih (fun e he => h e (List.mem_cons_of_mem _ he))
    simp only [List.map_cons, eraseEntry, unpackEntries, hx]
    have hr' : unpackEntries (all.map fun e => (e.addr, e.sec)) (List.map eraseEntry r) = .ok r := hr
    rw [hr']

end Sky.C18
