/-
  C18 — wallet encryption.  Core Lean only.

  Part A: faithful models of the two `Decrypt` functions (src/cipher/encrypt).  Every Go slice
  expression is the PARTIAL slice (`panic` when out of range, capacities tracked), integer
  arithmetic wraps where Go's does, division by zero / negative `make` / `aead.Open` with a wrong
  nonce length are panics.  Library pieces that are not modelled byte-for-byte are parameters
  (`SEnv`, `H`, `keyOf`): json.Unmarshal, the scrypt core after its parameter checks, the
  chacha20poly1305 core after its length checks, SHA-256, Secp256k1Hash.

  Part B: the abstract Lock/Unlock model of the three secret-holding wallet types.
-/
import Sky.Prim.Res
namespace Sky.C18
open Sky

abbrev Bytes := List Nat

/-! ### base64.StdEncoding.Decode (padded, non-strict, ignores CR/LF) -/

def b64val (c : Nat) : Option Nat :=
  if 65 ≤ c ∧ c ≤ 90 then some (c - 65)
  else if 97 ≤ c ∧ c ≤ 122 then some (c - 71)
  else if 48 ≤ c ∧ c ≤ 57 then some (c + 4)
  else if c = 43 then some 62
  else if c = 47 then some 63
  else none

/-- decode on input from which CR/LF have been removed -/
def b64go : List Nat → Option Bytes
  | [] => some []
  | [_] => none
  | [_, _] => none
  | [_, _, _] => none
  | a :: b :: c :: d :: rest =>
    match b64val a, b64val b with
    | some x, some y =>
      if c = 61 then
        if d = 61 ∧ rest = [] then some [(x * 4 + y / 16) % 256] else none
      else
        match b64val c with
        | none => none
        | some z =>
          if d = 61 then
            if rest = [] then some [(x * 4 + y / 16) % 256, (y % 16 * 16 + z / 4) % 256] else none
          else
            match b64val d with
            | none => none
            | some w =>
              match b64go rest with
              | none => none
              | some r => some ((x * 4 + y / 16) % 256 :: (y % 16 * 16 + z / 4) % 256 :: (z % 4 * 64 + w) % 256 :: r)
    | _, _ => none

def notNL (c : Nat) : Bool := c != 10 && c != 13

def b64decode (data : Bytes) : Option Bytes := b64go (data.filter notNL)

/-- `enc.DecodedLen(len(data))` for the padded encoding -/
def decodedLen (n : Nat) : Nat := n / 4 * 3

/-! ### Go byte slices with capacity -/

/-- a Go `[]byte`: `arr` is the backing array from the slice's first element to its capacity,
`len` the slice length.  Bytes between `len` and the capacity are readable by re-slicing. -/
structure GoSlice where
  arr : Bytes
  len : Nat
deriving Repr

def GoSlice.cap (s : GoSlice) : Nat := s.arr.length
def GoSlice.bytes (s : GoSlice) : Bytes := s.arr.take s.len

/-- `s[i:j]` — panics unless `i ≤ j ≤ cap(s)` -/
def GoSlice.slice (s : GoSlice) (i j : Nat) : Res GoSlice :=
  if i ≤ j ∧ j ≤ s.cap then .ok ⟨s.arr.drop i, j - i⟩ else .panic "slice bounds out of range"

/-- `make([]byte, n)` then `Decode` wrote `raw` into it -/
def decodeBuf (data raw : Bytes) : GoSlice :=
  let cap := decodedLen data.length
  ⟨raw.take cap ++ List.replicate (cap - raw.length) 0, cap⟩

def le16 (b : Bytes) : Nat := (b.getD 0 0) % 256 + 256 * ((b.getD 1 0) % 256)
def le32 (b : Bytes) : Nat :=
  (b.getD 0 0) % 256 + 256 * ((b.getD 1 0) % 256) + 65536 * ((b.getD 2 0) % 256) + 16777216 * ((b.getD 3 0) % 256)

/-! ### scrypt-chacha20poly1305 Decrypt -/

structure Meta where
  N : Int
  R : Int
  P : Int
  KeyLen : Int
  salt : Bytes
  nonce : Bytes
deriving Repr

/-- the library functions that are parameters of the model; their types make them total -/
structure SEnv where
  /-- `json.Unmarshal(bytes, &meta)`: `none` = error -/
  unmarshal : Bytes → Option Meta
  /-- scrypt proper (pbkdf2 / smix / pbkdf2) once the parameters passed the checks -/
  kdfCore : (pw salt : Bytes) → (N r p keyLen : Nat) → Bytes
  /-- chacha20poly1305 `open` once the nonce/ciphertext length checks passed: `none` = authentication failure -/
  openCore : (key nonce ct ad : Bytes) → Option Bytes

def maxInt : Int := 2^63 - 1
/-- runtime `maxAlloc` on linux/amd64: `make` panics above it -/
def maxAlloc : Int := 2^48

def errO (s : String) : Err := .other s

/-- `scrypt.Key(password, salt, N, r, p, keyLen)` — the parameter checks exactly as written
(`uint64(r)*uint64(p) >= 1<<30 || r > maxInt/128/p || r > maxInt/256 || N > maxInt/128/r`, left to
right, integer division by zero panics), the three `make`s, and `pbkdf2.Key`'s `dk[:keyLen]`. -/
def scryptKey (E : SEnv) (pw salt : Bytes) (N r p keyLen : Int) : Res Bytes :=
  if N ≤ 1 ∨ (N.toNat &&& (N.toNat - 1)) ≠ 0 then .err (errO "scrypt: N must be > 1 and a power of 2")
  else if (toU64 r * toU64 p) % 2^64 ≥ 2^30 then .err (errO "scrypt: parameters are too large")
  else if p = 0 then .panic "integer divide by zero"
  else if r > Int.tdiv (Int.tdiv maxInt 128) p then .err (errO "scrypt: parameters are too large")
  else if r > Int.tdiv maxInt 256 then .err (errO "scrypt: parameters are too large")
  else if r = 0 then .panic "integer divide by zero"
  else if N > Int.tdiv (Int.tdiv maxInt 128) r then .err (errO "scrypt: parameters are too large")
  else if 64 * r < 0 ∨ 4 * (64 * r) > maxAlloc then .panic "alloc"
  else if 32 * N * r < 0 ∨ 4 * (32 * N * r) > maxAlloc then .panic "alloc"
  else if p * 128 * r < 0 ∨ p * 128 * r + 32 > maxAlloc then .panic "alloc"
  else if keyLen < 0 then .panic "slice bounds out of range"       -- pbkdf2: make(cap<0) / dk[:keyLen]
  else if keyLen + 32 > maxAlloc then .panic "alloc"
  else .ok (E.kdfCore pw salt N.toNat r.toNat p.toNat keyLen.toNat)

/-- `chacha20poly1305.New(key)` + `aead.Open(nil, nonce, ct, ad)` -/
def aeadOpen (E : SEnv) (key nonce ct ad : Bytes) : Res Bytes :=
  if key.length ≠ 32 then .err (errO "chacha20poly1305: bad key length")
  else if nonce.length ≠ 12 then .panic "chacha20poly1305: bad nonce length passed to Open"
  else if ct.length < 16 then .err (errO "chacha20poly1305: message authentication failed")
  else if ct.length > 2^38 - 48 then .panic "chacha20poly1305: ciphertext too large"
  else match E.openCore key nonce ct ad with
    | some m => .ok m
    | none => .err (errO "chacha20poly1305: message authentication failed")

/-- `encData := make([]byte, enc.DecodedLen(len(data))); n, err := enc.Decode(encData, data);
encData = encData[:n]` -/
def decodeStage (data : Bytes) : Res GoSlice :=
  match b64decode data with
  | none => .err (errO "base64")
  | some raw => (decodeBuf data raw).slice 0 raw.length

/-- the part of `Decrypt` after the metadata has been parsed (repaired version) -/
def scryptTail (E : SEnv) (pw : Bytes) (encData : GoSlice) (length : Nat) (m : Meta) : Res Bytes :=
  if m.nonce.length ≠ 12 then .err (errO "invalid nonce length") else
  if m.R ≤ 0 ∨ m.P ≤ 0 ∨ m.KeyLen ≠ 32 then .err (errO "invalid scrypt parameters") else
  (encData.slice 0 (2 + length)).bind fun ad =>
  (scryptKey E pw m.salt m.N m.R m.P m.KeyLen).bind fun dk =>
  (encData.slice (2 + length) encData.len).bind fun ct =>
  aeadOpen E dk m.nonce ct.bytes ad.bytes

/-- `ScryptChacha20poly1305.Decrypt` as repaired (bounds checks before every slice expression,
nonce length and scrypt parameters validated before use) -/
def decryptScrypt (E : SEnv) (data pw : Bytes) : Res Bytes :=
  if pw.length = 0 then .err (errO "missing password") else
  (decodeStage data).bind fun encData =>
  if encData.len < 2 then .err (errO "invalid metadata length") else
  (encData.slice 0 2).bind fun lenB =>
  let length : Nat := le16 lenB.bytes           -- int(uint16): no wrap in `2 + length`
  if 2 + length > encData.len then .err (errO "invalid metadata length") else
  (encData.slice 2 (2 + length)).bind fun ms =>
  match E.unmarshal ms.bytes with
  | none => .err (errO "json")
  | some m => scryptTail E pw encData length m

/-- the function as it was before the repair (defect F7): `encData[:2]` unguarded, `2+length`
computed in `uint16`, nonce length and r/p/keyLen passed on unchecked -/
def decryptScryptOld (E : SEnv) (data pw : Bytes) : Res Bytes :=
  if pw.length = 0 then .err (errO "missing password") else
  (decodeStage data).bind fun encData =>
  (encData.slice 0 2).bind fun lenB =>
  let length : Nat := le16 lenB.bytes
  let hi : Nat := (2 + length) % 65536           -- uint16 arithmetic
  if hi > encData.len then .err (errO "invalid metadata length") else
  (encData.slice 2 hi).bind fun ms =>
  match E.unmarshal ms.bytes with
  | none => .err (errO "json")
  | some m =>
    (encData.slice 0 hi).bind fun ad =>
    (scryptKey E pw m.salt m.N m.R m.P m.KeyLen).bind fun dk =>
    (encData.slice hi encData.len).bind fun ct =>
    aeadOpen E dk m.nonce ct.bytes ad.bytes

/-! ### sha256-xor Decrypt -/

/-- `bytes.Buffer.Read(p)` with `len(p) = k` on a buffer holding `buf`:
`none` = `(0, io.EOF)`; `some (got, rest)` = `(len got, nil)` -/
def bufRead (buf : Bytes) (k : Nat) : Option (Bytes × Bytes) :=
  if buf.length = 0 then (if k = 0 then some ([], buf) else none)
  else some (buf.take k, buf.drop k)

def xorB (a b : Bytes) : Bytes := List.zipWith (fun x y => Nat.xor (x % 256) (y % 256)) a b

/-- `binary.PutVarint(buf[32], i)` for `i ≥ 0`: zig-zag (2i) then base-128 little endian, rest zero -/
def uvarint (x : Nat) : Bytes :=
  if h : x < 128 then [x] else (x % 128 + 128) :: uvarint (x / 128)
termination_by x
decreasing_by omega

def indexBytes (i : Nat) : Bytes :=
  let v := uvarint (2 * i)
  v ++ List.replicate (32 - v.length) 0

/-- `hashKeyIndexNonce(key, i, hashNonce) = SHA256(key32 ‖ SHA256(indexBytes ‖ hashNonce))` -/
def hashKIN (H : Bytes → Bytes) (key : Bytes) (i : Nat) (hashNonce : Bytes) : Bytes :=
  let key32 := (key.take 32) ++ List.replicate (32 - key.length) 0      -- copy(keyHash[:], key[:])
  H (key32 ++ H (indexBytes i ++ hashNonce))

def named (s : String) : Err := .named s

/-- the block loop: read 32 bytes at a time until EOF -/
def xorBlocks (H : Bytes → Bytes) (key hashNonce : Bytes) : Nat → Bytes → Nat → Bytes → Res Bytes
  | 0, _, _, acc => .ok acc           -- fuel exhausted: cannot happen (fuel = length + 1)
  | fuel + 1, buf, i, acc =>
    match bufRead buf 32 with
    | none => .ok acc
    | some (blk, rest) =>
      if blk.length ≠ 32 then .err (named "ErrInvalidBlockSize")
      else xorBlocks H key hashNonce fuel rest (i + 1) (acc ++ xorB blk (hashKIN H key i hashNonce))

/-- the part of `Sha256Xor.Decrypt` after the blocks have been decoded -/
def xorTail (H : Bytes → Bytes) (dec : Bytes) : Res Bytes :=
  match bufRead dec 32 with
  | none => .err (errO "read data hash failed")
  | some (dataHash, buf) =>
    if dataHash.length ≠ 32 then .err (named "ErrReadDataHashFailed") else
    if dataHash ≠ H buf then .err (named "ErrInvalidPassword") else
    match bufRead buf 4 with
    | none => .err (named "EOF")
    | some (lenB, buf) =>
      if lenB.length ≠ 4 then .err (named "ErrReadDataLengthFailed") else
      let l := le32 lenB
      if buf.length > 4294967295 then .err (named "ErrDataTooLarge") else
      if l > buf.length % 4294967296 then .err (named "ErrInvalidDataLength") else
      match bufRead buf l with
      | none => .err (named "EOF")
      | some (rawData, _) =>
        if rawData.length % 4294967296 ≠ l then .err (errO "read data failed") else .ok rawData

/-- `Sha256Xor.Decrypt` -/
def decryptXor (H : Bytes → Bytes) (keyOf : Bytes → Bytes) (data pw : Bytes) : Res Bytes :=
  if pw.length = 0 then .err (named "ErrMissingPassword") else
  (decodeStage data).bind fun encData =>
  let key := keyOf pw
  match bufRead encData.bytes 32 with
  | none => .err (named "EOF")
  | some (checkSum, buf) =>
    if checkSum.length ≠ 32 then .err (named "ErrInvalidChecksumLength") else
    if H buf ≠ checkSum then .err (named "ErrInvalidChecksum") else
    match bufRead buf 32 with
    | none => .err (named "EOF")
    | some (nonce, buf) =>
      if nonce.length ≠ 32 then .err (named "ErrInvalidNonceLength") else
      (xorBlocks H key (H nonce) (buf.length + 1) buf 0 []).bind fun dec => xorTail H dec

/-! ### Part B — Lock / Unlock (abstract model of deterministic, bip44 and collection wallets)

The three secret-holding wallet types differ only in WHICH named string secrets they hold besides
the entry keys: deterministic `seed`,`lastSeed`; bip44 `seed`,`seedPassphrase` and one
`bip44AccountPrivateKey-<i>` per account; collection none.  The model keeps them as a list of
named fields. -/

structure Entry where
  addr : String
  pub : Bytes
  sec : Bytes          -- `[]` = the null (erased) secret key
deriving DecidableEq, Repr

structure Wallet where
  pubMeta : List (String × String)   -- type, label, filename, coin, version, xpub … : never secret
  strs : List (String × String)      -- named secret strings (seed, lastSeed, passphrase, account keys); "" = erased
  entries : List Entry
  temp : Bool
  encrypted : Bool
  secrets : Bytes                    -- meta "secrets": the ciphertext, `[]` when not encrypted
deriving DecidableEq, Repr

/-- what is handed to the cipher: the `Secrets` map (named strings; entry keys by address) -/
abbrev Packed := List (String × String) × List (String × Bytes)

/-- serialisation of the secrets map and the cipher, as parameters -/
structure Cipher where
  ser : Packed → Bytes
  deser : Bytes → Option Packed
  enc : Bytes → Bytes → Bytes → Bytes         -- plaintext, password, randomness (salt/nonce)
  dec : Bytes → Bytes → Option Bytes          -- ciphertext, password

/-- `packSecrets` -/
def pack (w : Wallet) : Packed := (w.strs, w.entries.map (fun e => (e.addr, e.sec)))

def eraseEntry (e : Entry) : Entry := { e with sec := [] }
def eraseStr (kv : String × String) : String × String := (kv.1, "")

inductive LErr | temp | missingPassword | alreadyEncrypted | notEncrypted | missingSecrets | invalidPassword
  | badSecrets | missingKey (k : String) | missingCryptoType | unknownCrypto
deriving DecidableEq, Repr

/-- `Wallet.Lock(password)` -/
def lock (C : Cipher) (w : Wallet) (pw rnd : Bytes) : Except LErr Wallet :=
  if w.temp then .error .temp
  else if pw.length = 0 then .error .missingPassword
  else if w.encrypted then .error .alreadyEncrypted
  else .ok { w with strs := w.strs.map eraseStr, entries := w.entries.map eraseEntry,
                    encrypted := true, secrets := C.enc (C.ser (pack w)) pw rnd }

def lookupS (k : String) : List (String × String) → Option String
  | [] => none
  | (a, b) :: r => if a = k then some b else lookupS k r
def lookupB (k : String) : List (String × Bytes) → Option Bytes
  | [] => none
  | (a, b) :: r => if a = k then some b else lookupB k r

/-- restore the named strings from the decrypted map -/
def unpackStrs (ss : List (String × String)) : List (String × String) → Except LErr (List (String × String))
  | [] => .ok []
  | (k, _) :: r =>
    match lookupS k ss with
    | none => .error (.missingKey k)
    | some v => match unpackStrs ss r with
      | .error x => .error x
      | .ok r' => .ok ((k, v) :: r')

/-- `entries.UnpackSecretKeys` -/
def unpackEntries (ss : List (String × Bytes)) : List Entry → Except LErr (List Entry)
  | [] => .ok []
  | e :: r =>
    match lookupB e.addr ss with
    | none => .error (.missingKey e.addr)
    | some s => match unpackEntries ss r with
      | .error x => .error x
      | .ok r' => .ok ({ e with sec := s } :: r')

/-- `Wallet.Unlock(password)` -/
def unlock (C : Cipher) (w : Wallet) (pw : Bytes) : Except LErr Wallet :=
  if !w.encrypted then .error .notEncrypted
  else if pw.length = 0 then .error .missingPassword
  else if w.secrets.length = 0 then .error .missingSecrets
  else match C.dec w.secrets pw with
    | none => .error .invalidPassword
    | some sb => match C.deser sb with
      | none => .error .badSecrets
      | some (strs, keys) =>
        match unpackStrs strs w.strs with
        | .error x => .error x
        | .ok ss => match unpackEntries keys w.entries with
          | .error x => .error x
          | .ok es => .ok { w with strs := ss, entries := es, encrypted := false, secrets := [] }

/-! ### which cipher: the recorded crypto type and the default

`Lock` reads the meta field `cryptoType`; a wallet whose meta has none (files written by old
releases, loaded unencrypted) is locked with `crypto.DefaultCryptoType`, and the type that was USED
is what `SetEncrypted` records.  `Unlock` refuses a wallet without a recorded type. -/

/-- `crypto.GetCrypto` (the table of registered ciphers) and `crypto.DefaultCryptoType` -/
structure Ciphers where
  get : String → Option Cipher
  default : String

def setS (k v : String) : List (String × String) → List (String × String)
  | [] => [(k, v)]
  | (a, b) :: r => if a = k then (k, v) :: r else (a, b) :: setS k v r

/-- `Meta.CryptoType()`: "" when the field is absent -/
def recorded (w : Wallet) : String := (lookupS "cryptoType" w.pubMeta).getD ""

/-- the type Lock uses -/
def effType (T : Ciphers) (w : Wallet) : String := if recorded w = "" then T.default else recorded w

def withType (ct : String) (w : Wallet) : Wallet := { w with pubMeta := setS "cryptoType" ct w.pubMeta }

/-- `Wallet.Lock(password)` with the cipher looked up -/
def lockT (T : Ciphers) (w : Wallet) (pw rnd : Bytes) : Except LErr Wallet :=
  if w.temp then .error .temp
  else if pw.length = 0 then .error .missingPassword
  else if w.encrypted then .error .alreadyEncrypted
  else match T.get (effType T w) with
    | none => .error .unknownCrypto
    | some C => match lock C w pw rnd with
      | .ok w' => .ok (withType (effType T w) w')
      | .error e => .error e

/-- `Wallet.Unlock(password)` with the cipher looked up -/
def unlockT (T : Ciphers) (w : Wallet) (pw : Bytes) : Except LErr Wallet :=
  if !w.encrypted then .error .notEncrypted
  else if pw.length = 0 then .error .missingPassword
  else if w.secrets.length = 0 then .error .missingSecrets
  else if recorded w = "" then .error .missingCryptoType
  else match T.get (recorded w) with
    | none => .error .unknownCrypto
    | some C => unlock C w pw

/-- the secret fields that the serialised form of a wallet carries IN CLEAR: every named secret
string and every entry's secret key that is not empty/null -/
def secretsOf (w : Wallet) : List (String × (Bytes ⊕ String)) :=
  (w.strs.filter (fun kv => kv.2 ≠ "")).map (fun kv => (kv.1, (Sum.inr kv.2 : Bytes ⊕ String))) ++
  (w.entries.filter (fun e => e.sec ≠ [])).map (fun e => (e.addr, (Sum.inl e.sec : Bytes ⊕ String)))

end Sky.C18
