/-
  C18 driver.  Answers every harness line from the model / specification:

    b64 / skey      model validation (base64 decoder, scrypt.Key parameter checks)        → unknown on difference
    sdec, sdec-alloc, xdec   the faithful Decrypt models, library read-backs as inputs;
                    an implementation `panic` is ALWAYS a property failure                → fail
    senc / xenc     spec: Encrypt then Decrypt gives the data back, another password fails → fail on difference
    lock            spec line computed by running the Lock/Unlock model                    → fail on difference
    xref            the implementation's ciphertext decrypted by the reference model must give the data → fail
    xafter          a long sha256-xor operation, then another op in the same process: same answer    → fail
    lockl, lockfix, svcl, svcfix   wallets loaded from sparse / legacy files: spec line computed by running
                    `lockT` / `unlockT` (cipher looked up, default for wallets without a recorded type) → fail
-/
import Sky.Prim.DrvLib
import Sky.C18.Model
import Sky.Hash.Sha256
namespace Sky.C18
open Sky Sky.Drv

def showB : Res Bytes → String := showRes hexOf

def parseUm (s : String) : Option Meta :=
  match s.splitOn "," with
  | [n, r, p, k, salt, nonce] => do
      let n ← n.toInt?; let r ← r.toInt?; let p ← p.toInt?; let k ← k.toInt?
      let salt ← hex? salt; let nonce ← hex? nonce
      pure ⟨n, r, p, k, salt, nonce⟩
  | _ => none

def parseFin (s : String) : Option Bytes :=
  if s.startsWith "ok:" then hex? (s.drop 3).toString else none

def field (pre : String) (ws : List String) : String :=
  match ws.find? (·.startsWith pre) with
  | some w => (w.drop pre.length).toString
  | none => "-"

def envOf (ws : List String) : SEnv where
  unmarshal := fun _ => parseUm (field "um=" ws)
  kdfCore := fun _ _ _ _ _ k => List.replicate k 0
  openCore := fun _ _ _ _ => parseFin (field "fin=" ws)

/-- model wallet with the secret fields the real wallet of this type holds -/
def mkW (typ : String) (n : Nat) : Wallet :=
  let ents (k : Nat) : List Entry := (List.range k).map fun i => ⟨s!"addr{i}", [2, i], [7, i + 1]⟩
  match typ with
  | "deterministic" => ⟨[("type", typ)], [("seed", "s"), ("lastSeed", "l")], ents n, false, false, []⟩
  | "bip44" => ⟨[("type", typ)], [("seed", "s"), ("seedPassphrase", "p"), ("bip44AccountPrivateKey-0", "xprv")],
                ents (n + 1), false, false, []⟩
  | _ => ⟨[("type", typ)], [], ents n, false, false, []⟩

def toy (w : Wallet) : Cipher where
  ser := fun _ => [1]
  deser := fun _ => some (pack w)
  enc := fun m pw _ => pw.length :: (pw ++ m)
  dec := fun c pw => match c with
    | [] => none
    | n :: rest => if rest.take n = pw ∧ n = pw.length then some (rest.drop n) else none

def lerr : LErr → String
  | .temp => "ErrEncryptTempWallet" | .missingPassword => "ErrMissingPassword"
  | .alreadyEncrypted => "ErrWalletEncrypted" | .notEncrypted => "ErrWalletNotEncrypted"
  | .invalidPassword => "ErrInvalidPassword" | _ => "other"

def exS {α} (f : α → String) : Except LErr α → String
  | .ok a => f a | .error e => lerr e

def lockLine (typ : String) (n : Nat) (pw pw2 : Bytes) : String :=
  let w := mkW typ n
  let C := toy w
  match lock C w pw [] with
  | .error e => "lock=" ++ lerr e
  | .ok w' =>
    let secretVals : List String := w.strs.map (·.2) ++ w.entries.map (fun e => hexOf e.sec)
    let lockedVals : List String := w'.strs.map (·.2) ++ w'.entries.map (fun e => hexOf e.sec)
    let leak := (secretVals.filter fun s => lockedVals.contains s).length
    let un := match unlock C w' pw with
      | .ok u => if u = w then "same" else "different"
      | .error e => "err:" ++ lerr e
    s!"lock=ok nsecrets={(secretsOf w).length} clear={(secretsOf w').length} leak={leak} enc={w'.encrypted} unlock={un} " ++
    s!"wrong={exS (fun _ => "nil") (unlock C w' pw2)} emptypw={exS (fun _ => "nil") (unlock C w' [])} " ++
    -- Unlock / Clone are functions: the locked wallet they are applied to is the same value afterwards
    -- (in the model `unlock C w' pw` is an expression: `w'` cannot change; the spec is `purity=ok`)
    s!"again={exS (fun _ => "nil") (lock C w' pw [])} reload={un} purity=ok"

/-! wallets loaded from sparse / legacy files: the cipher is LOOKED UP (`lockT` / `unlockT`), the table holds the
three registered names, the default is the one `crypto.DefaultCryptoType` names -/

def table (w : Wallet) : Ciphers where
  get := fun n => if n == "sha256-xor" || n == "scrypt-chacha20poly1305" || n == "scrypt-chacha20poly1305-insecure"
    then some (toy w) else none
  default := "scrypt-chacha20poly1305"

/-- model wallet of a loaded file: `nstr` named secret strings, `nent` entries, crypto type recorded or not -/
def mkWn (typ ct : String) (nstr nent : Nat) : Wallet :=
  let pm := if ct == "-" then [("type", typ)] else [("type", typ), ("cryptoType", ct)]
  ⟨pm, (List.range nstr).map (fun i => (s!"str{i}", s!"v{i}")),
   (List.range nent).map (fun i => ⟨s!"addr{i}", [2, i], [7, i + 1]⟩), false, false, []⟩

def withMeta (w : Wallet) (ct : String) : Wallet :=
  if ct == "-" then w else { w with pubMeta := w.pubMeta ++ [("cryptoType", ct)] }

def leakOf (w w' : Wallet) : Nat :=
  let secretVals : List String := w.strs.map (·.2) ++ w.entries.map (fun e => hexOf e.sec)
  let lockedVals : List String := w'.strs.map (·.2) ++ w'.entries.map (fun e => hexOf e.sec)
  (secretVals.filter fun s => lockedVals.contains s).length

def showCT (s : String) : String := if s == "" then "-" else s

def legacyLockLine (w : Wallet) (pw pw2 : Bytes) (light : Bool) : String :=
  let T := table w
  match lockT T w pw [] with
  | .error e => "load=ok lock=" ++ lerr e
  | .ok w' =>
    let un := match unlockT T w' pw with
      | .ok u => if u = withType (effType T w) w then "same" else "different"
      | .error e => "err:" ++ lerr e
    let wrong := if light then "skipped" else exS (fun _ => "nil") (unlockT T w' pw2)
    let reload := if light then "loaded" else un
    s!"load=ok lock=ok ct={showCT (recorded w')} nsecrets={(secretsOf w).length} clear={(secretsOf w').length} " ++
    s!"leak={leakOf w w'} enc={w'.encrypted} unlock={un} wrong={wrong} emptypw={exS (fun _ => "nil") (unlockT T w' [])} " ++
    s!"again={exS (fun _ => "nil") (lockT T w' pw [])} reload={reload} purity=ok"

def legacySvcLine (w : Wallet) (pw pw2 : Bytes) : String :=
  let T := table w
  match lockT T w pw [] with
  | .error e => "load=ok enc=" ++ lerr e
  | .ok w' =>
    let dec := match unlockT T w' pw with
      | .ok u => if u = withType (effType T w) w then "same" else "different"
      | .error e => "err:" ++ lerr e
    s!"load=ok enc=ok ct={showCT (recorded w')} leak={2 * leakOf w w'} wrong={exS (fun _ => "nil") (unlockT T w' pw2)} dec={dec}"

def isLight (edits : String) : Bool := (edits.splitOn ",").contains "light"

def isPanic (impl : String) : Bool := impl.startsWith "panic"

def stepBase (op impl : String) : String × Verdict :=
  let ws := op.splitOn " "
  match ws with
  | ["b64", d] =>
      match hex? d with
      | some d => (match b64decode d with | some r => "ok " ++ hexOf r | none => "err", .unknown)
      | none => ("bad-op", .unknown)
  | ["skey", n, r, p, k] =>
      match n.toInt?, r.toInt?, p.toInt?, k.toInt? with
      | some n, some r, some p, some k =>
          (showRes (fun _ => "") (scryptKey (envOf []) [] [] n r p k), .unknown)
      | _, _, _, _ => ("bad-op", .unknown)
  | "sdec" :: d :: pw :: _ | "sdec-alloc" :: d :: pw :: _ =>
      match hex? d, hex? pw with
      | some d, some pw =>
          let m := showB (decryptScrypt (envOf ws) d pw)
          if isPanic impl then ("ok|err, never panic (model of the current source: " ++ m ++ ")", .fail)
          else (m, .unknown)
      | _, _ => ("bad-op", .unknown)
  | ["xdec", d, pw, key] =>
      match hex? d, hex? pw with
      | some d, some pw =>
          let k := (hex? ((key.drop 4).toString)).getD []
          let m := showB (decryptXor Sky.Hash.sha256 (fun _ => k) d pw)
          if isPanic impl then ("ok|err, never panic (model: " ++ m ++ ")", .fail)
          -- a ciphertext the reference construction decrypts must be decrypted, to the same plaintext
          else (m, if m.startsWith "ok" then .fail else .unknown)
      | _, _ => ("bad-op", .unknown)
  | ["xref", d, pw, key] =>
      -- Encrypt's ciphertext, decrypted by the reference: must give the plaintext back
      match hex? d, hex? pw with
      | some d, some pw =>
          let k := (hex? ((key.drop 4).toString)).getD []
          let iw := impl.splitOn " "
          let good := match hex? (field "ct=" iw) with
            | some ct => showB (decryptXor Sky.Hash.sha256 (fun _ => k) ct pw) == "ok " ++ hexOf d
            | none => false
          if good && field "rt=" iw == "same" && iw.head? == some "ok" then (impl, .fail)
          else ("ok ct=<the reference ciphertext for the nonce drawn> rt=same", .fail)
      | _, _ => ("bad-op", .unknown)
  | [c, _, pw] =>
      if c == "senc" || c == "xenc" then
        (if pw == "-" then "err other" else "ok same", .fail)
      else ("bad-op", .unknown)
  | ["lock", typ, _, _, n, pw, pw2] =>
      match n.toNat?, hex? pw, hex? pw2 with
      | some n, some pw, some pw2 => (lockLine typ n pw pw2, .fail)
      | _, _, _ => ("bad-op", .unknown)
  | ["alias", _, _, _] => ("ok pure", .fail)
  | "lockext" :: _ => ("ok unlock=same reloaded=same again=same", .fail)
  | [c, typ, ct, _, n, pw, pw2, edits] =>
      if c == "lockl" || c == "svcl" then
        match n.toNat?, hex? pw, hex? pw2 with
        | some n, some pw, some pw2 =>
            let w := withMeta (mkW typ n) ct
            (if c == "lockl" then legacyLockLine w pw pw2 (isLight edits) else legacySvcLine w pw pw2, .fail)
        | _, _, _ => ("bad-op", .unknown)
      else ("bad-op", .unknown)
  | ["lockfix", _, typ, ct, nstr, nent, pw, pw2, edits] =>
      match nstr.toNat?, nent.toNat?, hex? pw, hex? pw2 with
      | some a, some b, some pw, some pw2 => (legacyLockLine (mkWn typ ct a b) pw pw2 (isLight edits), .fail)
      | _, _, _, _ => ("bad-op", .unknown)
  | ["svcfix", _, typ, ct, pw, pw2, _] =>
      match hex? pw, hex? pw2 with
      | some pw, some pw2 => (legacySvcLine (mkWn typ ct 1 1) pw pw2, .fail)
      | _, _ => ("bad-op", .unknown)
  | _ => ("bad-op", .unknown)

/-- `xafter <n> <seed> <pw> :: <op>`: a long sha256-xor round trip, then `<op>` in the same process; the long
operation must succeed and `<op>` must answer exactly as it does on its own -/
def step (op impl : String) : String × Verdict :=
  if op.startsWith "xafter " then
    match op.splitOn " :: " with
    | [_, inner] =>
      let pre := "big=ok_same "
      if impl.startsWith pre then
        let (m, v) := stepBase inner (impl.drop pre.length).toString
        (pre ++ m, v)
      else
        let (m, _) := stepBase inner ((impl.splitOn " ").drop 1 |> " ".intercalate)
        (pre ++ m, .fail)
    | _ => ("bad-op", .unknown)
  else stepBase op impl

end Sky.C18

def main : IO Unit := Sky.Drv.loopPure Sky.C18.step
