"""vlib — shared machinery of ./check (see DESIGN.md §2 "Per-run flow").

A property's check is described by a small config (checks/cNN.py: CONFIG dict, optional hooks);
`standard_check` runs the common flow:

  1. regenerate Sky/Gen/*.lean from /repo (translators)            [under flock]
  2. lake build the property's theorem modules and its driver      [under flock]
  3. axiom audit (#print axioms on every theorem) + forbidden-token grep
  4. go build -tags verif the harness against /repo's working tree; run corpus + generator
  5. pipe the op lines through the Lean driver; classify every difference
  6. known findings: print KNOWN-FINDING for listed ones, VIOLATION for anything else
  7. write evidence/<id>.json
"""
import fcntl, hashlib, json, os, re, subprocess, sys, time, tempfile, shutil, glob

VERIF = os.path.dirname(os.path.abspath(__file__))
LEAN = os.path.join(VERIF, "lean")
REPO = os.environ.get("VERIF_REPO", "/repo")
BIN = os.path.join(VERIF, "bin")
GOENV = dict(os.environ, GOFLAGS="-mod=mod", GOPROXY="off", GOSUMDB="off", GOTOOLCHAIN="local",
             CGO_ENABLED=os.environ.get("CGO_ENABLED", "0"))
ALLOWED_AXIOMS = {"propext", "Classical.choice", "Quot.sound"}
FORBIDDEN = re.compile(r"\bsorry\b|\badmit\b|^\s*axiom\s|native_decide|bv_decide|implemented_by|\bunsafe\s|maxHeartbeats\s+0")


def sh(cmd, cwd=None, env=None, timeout=None, stdin=None, check=False):
    p = subprocess.run(cmd, cwd=cwd, env=env, timeout=timeout, input=stdin, text=True,
                       stdout=subprocess.PIPE, stderr=subprocess.STDOUT, shell=isinstance(cmd, str))
    if check and p.returncode != 0:
        raise RuntimeError("command failed: %s\n%s" % (cmd, p.stdout[-4000:]))
    return p.returncode, p.stdout


class Lock:
    """exclusive lock serialising translator output + lake builds (they share lean/.lake)."""
    def __init__(self, name=".lock"):
        self.path = os.path.join(LEAN, name)
    def __enter__(self):
        self.f = open(self.path, "w")
        fcntl.flock(self.f, fcntl.LOCK_EX)
        return self
    def __exit__(self, *a):
        fcntl.flock(self.f, fcntl.LOCK_UN)
        self.f.close()


def build_go_tools():
    """(re)build translators; cheap when cached."""
    os.makedirs(BIN, exist_ok=True)
    rc, out = sh(["go", "build", "-o", BIN + "/", "./..."], cwd=os.path.join(VERIF, "tools/extract"), env=GOENV)
    if rc != 0:
        raise RuntimeError("building translators failed:\n" + out)


def run_translators(names):
    """run the named translators; returns list of (name, ok, output)."""
    res = []
    for n in names:
        rc, out = sh([BIN + "/" + n, "-repo", REPO, "-out", LEAN], env=GOENV)
        res.append((n, rc == 0, out.strip()))
    return res


def lake_build(targets, timeout=3000):
    rc, out = sh(["lake", "build"] + targets, cwd=LEAN, timeout=timeout)
    return rc == 0, out


def strip_comments(src):
    src = re.sub(r"/-.*?-/", "", src, flags=re.S)
    src = re.sub(r"--.*", "", src)
    return src


def theorem_names(path):
    """fully qualified names of the theorems declared in a Props file (single namespace per file)."""
    src = strip_comments(open(path).read())
    ns = re.search(r"^namespace\s+(\S+)", src, flags=re.M)
    pre = ns.group(1) + "." if ns else ""
    return [pre + m.group(1) for m in re.finditer(r"^\s*theorem\s+([A-Za-z_][\w'.?!]*)", src, flags=re.M)]


def forbidden_tokens(paths):
    hits = []
    for p in paths:
        for i, line in enumerate(strip_comments(open(p).read()).splitlines(), 1):
            if FORBIDDEN.search(line):
                hits.append("%s:%d: %s" % (os.path.relpath(p, VERIF), i, line.strip()[:100]))
    return hits


def axiom_audit(prop, modules, theorems):
    """#print axioms for every theorem; returns (ok, {theorem: [axioms]}, raw)."""
    if not theorems:
        return True, {}, ""
    d = os.path.join(LEAN, ".audit")
    os.makedirs(d, exist_ok=True)
    f = os.path.join(d, "Audit%s.lean" % prop)
    with open(f, "w") as fh:
        for m in modules:
            fh.write("import %s\n" % m)
        for t in theorems:
            fh.write("#print axioms %s\n" % t)
    rc, out = sh(["lake", "env", "lean", f], cwd=LEAN, timeout=1200)
    res = {}
    for m in re.finditer(r"'([^']+)' (depends on axioms: \[([^\]]*)\]|does not depend on any axioms)", out, flags=re.S):
        ax = [a.strip() for a in (m.group(3) or "").replace("\n", " ").split(",") if a.strip()]
        res[m.group(1)] = ax
    ok = rc == 0 and all(t in res and set(res[t]) <= ALLOWED_AXIOMS for t in theorems)
    return ok, res, out


def failed_theorems(build_out, props_files):
    """map lake error positions back to theorem names."""
    bad = set()
    for pf in props_files:
        rel = os.path.relpath(pf, LEAN)
        lines = open(pf).read().splitlines()
        for m in re.finditer(re.escape(rel) + r":(\d+):\d+: error", build_out):
            ln = int(m.group(1))
            name = None
            for i in range(min(ln, len(lines)) - 1, -1, -1):
                mm = re.match(r"\s*(theorem|example|def|lemma)\s+([A-Za-z_][\w'.]*)?", lines[i])
                if mm:
                    name = mm.group(2) or "example@%d" % (i + 1)
                    break
            bad.add(name or "line%d" % ln)
    return sorted(bad)


def build_harness(hname):
    """build harness/<hname> (its own main package) against the current working tree of REPO
    (/repo, or $VERIF_REPO — a scratch worktree used when trialling seeded changes)."""
    hdir = os.path.join(VERIF, "harness")
    extra = []
    if os.path.realpath(REPO) != "/repo":
        tag = hashlib.sha256(REPO.encode()).hexdigest()[:8]
        mod = os.path.join(hdir, ".alt-%s.mod" % tag)
        open(mod, "w").write(open(os.path.join(hdir, "go.mod")).read().replace("=> /repo", "=> " + os.path.realpath(REPO)))
        shutil.copy(os.path.join(hdir, "go.sum"), os.path.join(hdir, ".alt-%s.sum" % tag))
        extra = ["-modfile=" + mod]
    rc, out = sh(["go", "build"] + extra + ["-tags", "verif", "-o", os.path.join(BIN, "h_" + hname), "./" + hname],
                 cwd=hdir, env=GOENV, timeout=1800)
    return rc == 0, out


def load_known(prop):
    p = os.path.join(VERIF, "known_findings.json")
    if not os.path.exists(p):
        return []
    return [k for k in json.load(open(p)).get("findings", []) if k["property"] == prop]


def match_known(known, op, impl, model=""):
    for k in known:
        if re.search(k["match_op"], op) and ("match_impl" not in k or re.search(k["match_impl"], impl)) \
                and ("match_model" not in k or re.search(k["match_model"], model)) \
                and ("not_model" not in k or not re.search(k["not_model"], model)):
            return k
    return None


class Result:
    def __init__(self, prop, tier, seed):
        self.prop, self.tier, self.seed = prop, tier, seed
        self.t0 = time.time()
        self.violations = []      # (kind, detail dict)
        self.known_seen = []
        self.obligations = 0
        self.discharged = 0
        self.coverage = {}
        self.assumptions = []
        self.notes = []

    def write_replay(self, kind, payload, suffix=""):
        d = os.path.join(VERIF, "replays", self.prop)
        os.makedirs(d, exist_ok=True)
        h = hashlib.sha256(json.dumps(payload, sort_keys=True).encode()).hexdigest()[:10]
        path = os.path.join(d, "%s-%s%s.json" % (kind, h, suffix))
        rc, diff = sh("git -C %s diff HEAD --stat | tail -1" % REPO)
        rc, head = sh("git -C %s rev-parse --short HEAD" % REPO)
        payload = dict(payload, property=self.prop, kind=kind, seed=self.seed, tier=self.tier,
                       repo_head=head.strip(), repo_diff=diff.strip())
        json.dump(payload, open(path, "w"), indent=1)
        return path

    def finish(self, level="proof"):
        ev = {
            "property_id": self.prop, "tier": self.tier, "seed": self.seed, "level": level,
            "coverage": dict(self.coverage, obligations=self.obligations, discharged=self.discharged),
            "assumptions": self.assumptions, "wall_s": round(time.time() - self.t0, 2),
            "violations": len(self.violations), "known_findings_seen": self.known_seen, "notes": self.notes,
        }
        # evidence/ only ever describes runs against /repo itself; trial runs against a scratch worktree
        # (VERIF_REPO) write next to the replays instead
        evdir = "evidence" if os.path.realpath(REPO) == "/repo" else os.path.join("replays", "evidence-alt")
        os.makedirs(os.path.join(VERIF, evdir), exist_ok=True)
        json.dump(ev, open(os.path.join(VERIF, evdir, self.prop + ".json"), "w"), indent=1)
        for k in self.known_seen:
            print("KNOWN-FINDING: property=%s %s" % (self.prop, k))
        if self.violations:
            for kind, path, tail in self.violations:
                print("VIOLATION property=%s replay=%s%s" % (self.prop, path, (" " + tail) if tail else ""))
            return 1
        print("OK property=%s tier=%s obligations=%d/%d %s wall=%.1fs" % (
            self.prop, self.tier, self.discharged, self.obligations,
            " ".join("%s=%s" % (k, v) for k, v in self.coverage.items() if isinstance(v, int)), time.time() - self.t0))
        return 0


class HarnessCrash(RuntimeError):
    """the harness process died while generating / executing ops against the real code (a panic outside the
    per-op recover, or a crash of a goroutine of the code under test)"""
    def __init__(self, msg, ops_path):
        RuntimeError.__init__(self, msg)
        self.ops_path = ops_path


def run_correspondence(cfg, tier, seed, replay_ops=None, harness_args=None):
    """run harness (gen or exec) and driver; returns (lines, diffs) where lines = [(op, impl)],
    diffs = [(idx, op, impl, model, verdict)]."""
    hname = cfg.get("harness", cfg["prop"].lower())
    tmp = tempfile.mkdtemp(prefix="verif-%s-" % cfg["prop"])
    try:
        ops_path = os.path.join(tmp, "ops.tsv")
        env = dict(GOENV, VERIF_SCRATCH=tmp, **cfg.get("harness_env", {}))
        env.update(cfg.get("tier_env", {}).get(tier, {}))
        with open(ops_path, "w") as fh:
            if replay_ops is None:
                corpus = sorted(glob.glob(os.path.join(VERIF, "corpus", cfg["prop"], "*.ops")))
                if corpus:
                    data = "".join(open(c).read() for c in corpus)
                    p = subprocess.run([BIN + "/h_" + hname, "exec"], input=data, text=True, stdout=fh,
                                       stderr=subprocess.PIPE, env=env, timeout=cfg.get("harness_timeout", 3000))
                    if p.returncode != 0:
                        raise RuntimeError("harness (corpus) failed: " + p.stderr[-2000:])
                p = subprocess.run([BIN + "/h_" + hname, "gen", "-seed", str(seed), "-tier", tier] + (harness_args or []),
                                   stdout=fh, stderr=subprocess.PIPE, text=True, env=env,
                                   timeout=cfg.get("harness_timeout", 3000))
            else:
                p = subprocess.run([BIN + "/h_" + hname, "exec"], input=replay_ops, text=True, stdout=fh,
                                   stderr=subprocess.PIPE, env=env, timeout=cfg.get("harness_timeout", 3000))
            if p.returncode != 0:
                raise HarnessCrash("harness failed (rc=%d): %s" % (p.returncode, p.stderr[-2000:]), ops_path)
        drv = os.path.join(LEAN, ".lake/build/bin", cfg.get("driver", "drv_" + cfg["prop"].lower()))
        with open(ops_path) as fin:
            p = subprocess.run([drv], stdin=fin, stdout=subprocess.PIPE, stderr=subprocess.PIPE, text=True,
                               timeout=cfg.get("driver_timeout", 3000))
        if p.returncode != 0:
            raise RuntimeError("driver failed (rc=%d): %s" % (p.returncode, p.stderr[-2000:]))
        lines = [l.rstrip("\n").split("\t") for l in open(ops_path)]
        lines = [(l[0], l[1] if len(l) > 1 else "") for l in lines]
        outs = p.stdout.splitlines()
        if len(outs) != len(lines):
            raise RuntimeError("driver answered %d lines for %d ops" % (len(outs), len(lines)))
        diffs = []
        for i, (o, (op, impl)) in enumerate(zip(outs, lines)):
            if o != "=":
                parts = o.split("\t")
                diffs.append((i, op, impl, parts[1] if len(parts) > 1 else "?", parts[2] if len(parts) > 2 else "unknown"))
        return lines, diffs
    finally:
        shutil.rmtree(tmp, ignore_errors=True)


def case_of(lines, idx):
    """for stateful streams: the op lines from the last `reset` up to and including idx."""
    start = idx
    while start > 0 and not lines[start][0].startswith("reset"):
        start -= 1
    if not lines[start][0].startswith("reset"):
        start = idx
    return [l[0] for l in lines[start:idx + 1]]


def distribution(lines, keyfn=None):
    d = {}
    for op, impl in lines:
        k = keyfn(op, impl) if keyfn else (op.split(" ")[0] + " -> " + " ".join(impl.split(" ")[:2 if impl.startswith("err") else 1]))
        d[k] = d.get(k, 0) + 1
    return d


def standard_check(cfg, tier, seed, replay=None):
    prop = cfg["prop"]
    R = Result(prop, tier, seed)
    R.assumptions = cfg.get("assumptions", [])
    props_files = [os.path.join(LEAN, f) for f in cfg["props_files"]]
    proof_problems = []
    build_out = ""
    # ---- 1-3: translators, lake build, audit (serialised) ----
    with Lock():
        build_go_tools()
        for name, ok, out in run_translators(cfg.get("translators", [])):
            if not ok:
                proof_problems.append("translator %s rejected the current source: %s" % (name, out[-600:]))
        thm_targets = cfg.get("lean_targets") or [re.sub(r"\.lean$", "", f).replace("/", ".") for f in cfg["props_files"]]
        if tier == "thorough" and cfg.get("clean_thorough", True):
            for t in thm_targets:
                for ext in ("olean", "ilean"):
                    try:
                        os.remove(os.path.join(LEAN, ".lake/build/lib/lean", t.replace(".", "/") + "." + ext))
                    except OSError:
                        pass
        ok, build_out = lake_build(thm_targets)
        theorems = []
        for pf in props_files:
            theorems += theorem_names(pf)
        R.obligations = len(theorems) + len(cfg.get("translators", []))
        if not ok:
            bad = failed_theorems(build_out, props_files)
            errs = [l for l in build_out.splitlines() if "error" in l][:12]
            proof_problems.append("lake build failed; theorems not checked: %s ; %s" % (bad or "?", " | ".join(errs)))
            R.discharged = 0
        else:
            aok, axioms, raw = axiom_audit(prop, thm_targets, theorems)
            R.coverage["axioms"] = {k.split(".")[-1]: v for k, v in axioms.items()}
            badax = {t: a for t, a in axioms.items() if not set(a) <= ALLOWED_AXIOMS}
            if not aok:
                proof_problems.append("axiom audit failed: %s %s" % (badax, raw[-400:] if not axioms else ""))
            hits = forbidden_tokens(props_files + [os.path.join(LEAN, f) for f in cfg.get("model_files", [])])
            if hits:
                proof_problems.append("forbidden tokens: " + "; ".join(hits[:5]))
            R.discharged = R.obligations - len(badax) - (1 if hits else 0) - sum(1 for p in proof_problems if p.startswith("translator"))
            if tier == "thorough" and not proof_problems and cfg.get("leanchecker", True):
                for t in thm_targets:
                    rc, out = sh(["lake", "env", "leanchecker", t], cwd=LEAN, timeout=3000)
                    if rc != 0:
                        proof_problems.append("leanchecker rejected %s: %s" % (t, out[-400:]))
                R.coverage["leanchecker"] = "ran on " + ",".join(thm_targets)
        drv_name = cfg.get("driver", "drv_" + prop.lower())
        dok, dout = lake_build([drv_name])
        drv_usable = True
        if not dok:
            # The driver imports regenerated modules for some properties.  When a translator rejected the
            # CURRENT source (changed shape) the driver cannot be rebuilt: that is a broken tie, not a
            # broken check.  Search for a failing input with the last driver that did build, if any.
            if os.path.exists(os.path.join(LEAN, ".lake/build/bin", drv_name)) and (proof_problems or "Sky/Gen/" in dout or "Sky.Gen." in dout):
                proof_problems.append("driver %s could not be rebuilt against the regenerated model (using the last built driver for the search): %s"
                                      % (drv_name, " | ".join(l for l in dout.splitlines() if "error" in l)[:600]))
            elif proof_problems or "Sky/Gen/" in dout or "Sky.Gen." in dout:
                proof_problems.append("driver %s could not be built against the regenerated model: %s"
                                      % (drv_name, " | ".join(l for l in dout.splitlines() if "error" in l)[:600]))
                drv_usable = False
            else:
                raise RuntimeError("driver build failed:\n" + dout[-3000:])
    R.coverage["checker_cmd"] = "cd lean && lake build %s && lake env lean .audit/Audit%s.lean  (#print axioms)" % (" ".join(thm_targets), prop)
    R.coverage["trusted_base"] = cfg.get("trusted_base", [])
    R.coverage["theorems"] = [t.split(".")[-1] for t in theorems]
    # ---- 4-5: correspondence ----
    hok, hout = build_harness(cfg.get("harness", prop.lower()))
    if not hok:
        raise RuntimeError("harness build failed against the current /repo tree:\n" + hout[-3000:])
    replay_ops = None
    if replay:
        rp = json.load(open(replay))
        replay_ops = "\n".join(rp.get("ops", [])) + "\n"
    if not drv_usable:
        payload = {"proof_problems": proof_problems, "ops": [],
                   "note": "the model could not be regenerated from the current source and no driver is available to search for a failing input"}
        path = R.write_replay("unproved", payload)
        R.violations.append(("unproved", path, "no-failing-input-found"))
        R.coverage.update(evaluations=0, distinct_nontrivial=0, rule="no correspondence run: driver unavailable", samples=[])
        return R.finish()
    try:
        lines, diffs = run_correspondence(cfg, tier, seed, replay_ops)
    except HarnessCrash as e:
        # the correspondence could not be completed on this tree: the property is no longer shown to hold.
        # Reported as a violation without a failing input; the replay names the crash and the ops executed so far.
        done = []
        try:
            done = [l.split("\t")[0] for l in open(e.ops_path).read().splitlines()][-50:]
        except OSError:
            pass
        path = R.write_replay("harness-crash", {"proof_problems": proof_problems, "crash": str(e)[:3000],
                                                "ops": done,
                                                "note": "the harness process died while driving the real code; last ops executed are listed"})
        R.violations.append(("harness-crash", path, "no-failing-input-found"))
        R.coverage.update(evaluations=len(done), distinct_nontrivial=0, rule="correspondence aborted: harness crashed", samples=[])
        return R.finish()
    # optional translator-validation drivers: the REGENERATED definitions executed on the same ops
    for xd in cfg.get("gen_drivers", []):
        with Lock():
            xok, xout = lake_build([xd])
        if not xok:
            proof_problems.append("translator-validation driver %s does not build against the regenerated model: %s"
                                  % (xd, " | ".join(l for l in xout.splitlines() if "error" in l)[:400]))
            continue
        data = "".join("%s\t%s\n" % (o, i) for o, i in lines)
        px = subprocess.run([os.path.join(LEAN, ".lake/build/bin", xd)], input=data, text=True,
                            stdout=subprocess.PIPE, stderr=subprocess.PIPE, timeout=cfg.get("driver_timeout", 3000))
        xouts = px.stdout.splitlines()
        bad = [(lines[i][0], lines[i][1], xouts[i]) for i in range(min(len(xouts), len(lines))) if xouts[i] != "="]
        R.coverage["translator_validation_" + xd] = {"ops": len(lines), "disagreements": len(bad)}
        if px.returncode != 0 or len(xouts) != len(lines):
            proof_problems.append("translator-validation driver %s failed (rc=%d)" % (xd, px.returncode))
        elif bad:
            proof_problems.append("the regenerated definitions disagree with the real code on %d ops (translation not faithful), e.g. %s"
                                  % (len(bad), bad[0]))
    known = load_known(prop)
    dist = distribution(lines, cfg.get("dist_key"))
    R.coverage["evaluations"] = len(lines)
    R.coverage["distinct_nontrivial"] = len(set(lines))
    R.coverage["rule"] = cfg.get("rule", "op lines generated by harness/%s.go from seed; distinct = distinct (op, output) pairs" % prop.lower())
    R.coverage["distribution"] = dict(sorted(dist.items()))
    R.coverage["samples"] = [{"op": o, "impl": i} for o, i in (lines[:3] + lines[len(lines) // 2: len(lines) // 2 + 3])]
    floor = cfg.get("min_ops", {}).get(tier, 1)
    if replay is None and len(lines) < floor:
        raise RuntimeError("broken harness: only %d ops generated (floor %d)" % (len(lines), floor))
    classify = cfg.get("classify")  # optional: re-judge a difference for THIS property
    if classify:
        diffs = [(i, op, impl, model, classify(op, impl, model, v)) for (i, op, impl, model, v) in diffs]
        diffs = [d for d in diffs if d[4] is not None]
    R.coverage["correspondence_disagreements"] = len(diffs)
    post = cfg.get("post")  # optional extra property-level analysis hook
    if post:
        post(R, lines, diffs)
    # ---- 6: classify ----
    reported = 0
    seen_known = set()
    fails = [d for d in diffs if d[4] == "fail"]
    others = [d for d in diffs if d[4] != "fail"]
    for (i, op, impl, model, verdict) in fails:
        k = match_known(known, op, impl, model)
        if k:
            if k["id"] not in seen_known:
                seen_known.add(k["id"])
                R.known_seen.append("%s: %s" % (k["id"], k["what"]))
            continue
        if reported < 5:
            path = R.write_replay("property-violation", {"ops": case_of(lines, i), "impl_output": impl,
                                  "spec_output": model, "note": "implementation output violates the property on this input"})
            R.violations.append(("property-violation", path, ""))
            reported += 1
    if not R.violations and (others or proof_problems):
        # no concrete failing input: the property is no longer shown to hold
        payload = {"proof_problems": proof_problems,
                   "correspondence_breaks": [{"ops": case_of(lines, i), "impl_output": impl, "model_output": model,
                                              "verdict": v} for (i, op, impl, model, v) in others[:5]],
                   "ops": case_of(lines, others[0][0]) if others else [],
                   "note": "no input found on which the property itself fails; the named theorem(s) / correspondence stream no longer check"}
        path = R.write_replay("unproved", payload)
        R.violations.append(("unproved", path, "no-failing-input-found"))
    elif proof_problems:
        R.notes += proof_problems
    return R.finish()
