#!/usr/bin/env python3
"""regenerate MANIFEST.json from checks/cNN.py (CONFIG['manifest']) — keeps the manifest valid and in
step with what is actually built.  Properties without a check are listed under not_applicable with
the reason recorded in tools/not_applicable.json (or 'check not built yet')."""
import importlib.util, json, os, sys
HERE = os.path.dirname(os.path.dirname(os.path.abspath(__file__)))
sys.path.insert(0, HERE)
props = [json.loads(l) for l in open(os.path.join(HERE, "properties.jsonl"))]
na_reasons = {}
p = os.path.join(HERE, "tools/not_applicable.json")
if os.path.exists(p):
    na_reasons = json.load(open(p))
checks, na = [], []
for pr in props:
    pid = pr["id"]
    path = os.path.join(HERE, "checks", pid.lower() + ".py")
    if not os.path.exists(path) or pid in na_reasons:
        na.append({"property_id": pid, "reason": na_reasons.get(pid, "check not built yet (work in progress; see DESIGN.md section 5 for the plan)")})
        continue
    spec = importlib.util.spec_from_file_location("chk", path)
    mod = importlib.util.module_from_spec(spec); spec.loader.exec_module(mod)
    if not mod.CONFIG.get("ready"):
        na.append({"property_id": pid, "reason": "check under construction (not yet claimed)"})
        continue
    m = mod.CONFIG["manifest"]
    checks.append({
        "property_id": pid,
        "quick_cmd": "./check %s --tier quick" % pid,
        "thorough_cmd": "./check %s --tier thorough" % pid,
        "evidence_file": "/verif/evidence/%s.json" % pid,
        "replay_cmd_template": "./check %s --replay {path}" % pid,
        "engine": "lean4+correspondence",
        "level_claimed": {"category": m.get("category", "proof"), "text": m["text"], "design_ref": m.get("design_ref", "DESIGN.md section 5, " + pid)},
        "level_note": m["note"],
        "technique": m["technique"],
    })
man = {
    "version": 1,
    "setup_cmd": "./setup.sh",
    "hooks": {
        "guard": "verif",
        "enable": "go build -tags verif (harness module /verif/harness with replace github.com/skycoin/skycoin => /repo)",
        "baseline_off_cmd": json.load(open("/root/.vp/BASELINE.json"))["cmd"] if os.path.exists("/root/.vp/BASELINE.json") else "go test ./...",
        "source_commits": json.load(open(os.path.join(HERE, "tools/hook_commits.json"))) if os.path.exists(os.path.join(HERE, "tools/hook_commits.json")) else [],
        "add_only": True,
    },
    "engines": [
        {"name": "lean4+correspondence", "path": "/verif/lean, /verif/harness, /verif/tools/extract, /verif/check",
         "serves_properties": [c["property_id"] for c in checks],
         "kind_free_text": "Lean 4 theorems about a model that is regenerated from /repo (translators) and/or tied to it by a differential correspondence run of the real Go code against the model's executable definitions"},
    ],
    "checks": checks,
    "not_applicable": na,
    "notes": "See DESIGN.md. Theorems: lean/Sky/Props/*.lean; regenerated model: lean/Sky/Gen (not committed); known findings: known_findings.json.",
}
json.dump(man, open(os.path.join(HERE, "MANIFEST.json"), "w"), indent=1)
print("MANIFEST.json: %d checks, %d not_applicable" % (len(checks), len(na)))
