import json,sys
pid=sys.argv[1]
for l in open('/verif/properties.jsonl'):
    d=json.loads(l)
    if d['id']==pid:
        break
suffix=sys.argv[2] if len(sys.argv)>2 else ""
avoid=sys.argv[3] if len(sys.argv)>3 else ""
wt="/tmp/seed-%s%s"%(pid.lower(),suffix)
print(f"""You are testing how well a Go code base is protected against subtle regressions. The repository skycoin/skycoin (a cryptocurrency full node and wallet written in Go) is checked out for you in your own scratch git worktree at {wt} (Go 1.23, offline sandbox: before any go command run `export GOFLAGS=-mod=mod GOPROXY=off GOSUMDB=off GOTOOLCHAIN=local`). Work ONLY inside {wt} (and /tmp for scratch files); do not read or touch /repo, /verif or any other directory, and do not use git commands that affect other worktrees.

Here is a semantic property that the code base is supposed to satisfy:

  id: {d['id']}
  title: {d['title']}
  statement: {d['statement']}
  quantified over: {d['quantifier']['text']}
  why the existing tests cannot settle it: {d['why_tests_cant']}
  code it is anchored in: {', '.join(d['anchors']['files'])}
  mechanisms meant to make it hold: {'; '.join(m['name']+' ('+m['where']+')' for m in d['anchors']['mechanism'])}

YOUR TASK: produce ONE realistic change to the non-test source code under {wt}/src that BREAKS this property while (a) the code still compiles (`go build ./...` and `go vet` of the touched packages), and (b) the EXISTING test suite of the affected packages still passes unedited (run `go test -count=1 ./src/<pkg>/...` for every package you touched and for packages that directly depend on the changed behaviour; known pre-existing flaky/failing tests you may ignore: src/transaction TestCreate / TestChooseSpends*Random (flaky), TestIsWritable and TestServiceNewAddresses (fail when run as root), src/visor TestErrMissingSignatureRecreateDB (fixture emptied in this sandbox: run src/visor tests with `-skip TestErrMissingSignatureRecreateDB`)).

The change must look like something a developer could plausibly write (a refactoring slip, a wrong boundary, a dropped or reordered check, a misplaced early return, an optimisation that is wrong in a corner case, two sites that each look fine alone) — not sabotage that ordinary use would expose at once. Prefer changes that need something SPECIFIC to manifest: a particular multi-step sequence of operations, an unusual but legal input, a boundary value, a crash or fault at a particular point, a particular interleaving, or two cooperating sites. Do not edit tests, vendored code, generated `*_skyencoder.go` files' tests, or files whose name ends in `_verif.go` (those are instrumentation hooks behind a build tag; leave them alone and do not rely on them).

{('A previous exercise already used this change, so pick a DIFFERENT site and a different mechanism: '+avoid+chr(10)+chr(10)) if avoid else ''}ALSO produce a DEMONSTRATION: a new Go test file (package-internal `_test.go` placed next to the code, or a small `main` program under {wt}/cmd/seeddemo/) that FAILS with your change and PASSES without it, showing concretely how the property is violated (assert the property itself, e.g. compare against an independently computed expectation). Verify both directions yourself: run it with the change applied (must fail) and with the change reverted (must pass), then re-apply the change. NEVER use `git stash` (the stash is shared with other worktrees): save your change with `git diff > /tmp/<name>.patch`, revert it with `git apply -R`, re-apply with `git apply`.

When done, leave the worktree with BOTH the change and the demonstration applied (uncommitted is fine), and write these files:
  {wt}/SEED/patch.diff   — `git diff` of the source change ONLY (no demonstration, no SEED dir)
  {wt}/SEED/demo/        — the demonstration file(s), with their intended paths noted in a README line
  {wt}/SEED/meta.json    — {{"property": "{d['id']}", "summary": "...", "needs_to_manifest": "...what specific input/sequence/fault is required...", "files_changed": [...], "tests_run": ["go test ... -> ok", ...], "demo_cmd": "exact command that runs the demonstration", "demo_fails_with_change": true, "demo_passes_without_change": true}}
Finish with a short report: what you changed, why existing tests do not notice, what it takes to manifest, and the exact demo command. If after serious effort you cannot find such a change for this property, say so plainly and explain why (do not fabricate).""")
