#!/usr/bin/env python3
"""Regenerates the per-property as-built table in DESIGN.md (between ASBUILT markers) from MANIFEST.json,
evidence/*.json, known_findings.json and seeded/*/meta.json."""
import json, glob, os, re
man = json.load(open('/verif/MANIFEST.json'))
kf = json.load(open('/verif/known_findings.json'))
find = {}
for f in kf['findings']:
    find.setdefault(f['property'], []).append(f['id'])
fixed = {}
for l in kf['fixed']:
    m = re.match(r'fixed: property=(\S+) (\S+) (F\w+)', l)
    if m:
        fixed.setdefault(m.group(1), []).append(m.group(3))
seeds = {}
for d in sorted(glob.glob('/verif/seeded/*')):
    sid = os.path.basename(d)
    seeds.setdefault(sid.split('-')[0], []).append(sid)
rows = []
for c in man['checks']:
    pid = c['property_id']
    try:
        ev = json.load(open('/verif/evidence/%s.json' % pid))
    except Exception:
        ev = {}
    cov = ev.get('coverage', {})
    nth = len(cov.get('theorems', []))
    evals = cov.get('evaluations', '')
    rows.append("| %s | %s | %s | %s | %s | %s | %s | %s |" % (
        pid, c['level_claimed']['category'], nth, c['technique'].replace('|', '/'),
        evals, ev.get('wall_s', ''), ', '.join(find.get(pid, [])) or '—', ', '.join(seeds.get(pid, [])) or '—'))
table = ("| property | level | theorems audited | deciding method | quick evaluations | quick wall s | known findings | seeded changes (11.5) |\n"
         "|---|---|---|---|---|---|---|---|\n" + "\n".join(rows))
p = '/verif/DESIGN.md'
s = open(p).read()
a, b = '<!-- ASBUILT-BEGIN -->', '<!-- ASBUILT-END -->'
if a in s:
    s = s[:s.index(a) + len(a)] + "\n" + table + "\n" + s[s.index(b):]
    open(p, 'w').write(s)
    print("as-built table:", len(rows), "rows")
else:
    print(table)
