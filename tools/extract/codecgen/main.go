// codecgen: tie "T" of property C21.
//
// Walks every skyencoder-generated file (*_skyencoder.go) under src/coin, src/daemon, src/visor,
// src/visor/blockdb, src/visor/historydb of the repository and emits into lean/Sky/Gen/Codecs.lean,
// per generated codec X:
//
//	ty_X    the schema the reflection-based reference encoder sees for the Go type, read from the Go
//	        struct declarations and their `enc:"…"` tags (go/ast; named types, arrays, slices, nested and
//	        embedded structs resolved across packages);
//	dec_X   the flat op program that generated decodeX performs       (Sky.Codec.DProg)
//	enc_X   the flat op program that generated encodeXToBuffer performs (Sky.Codec.EProg)
//	size_X  the flat op program that generated encodeSizeX performs   (Sky.Codec.SProg)
//	theorem gen_X_refines : denote ⟨dec_X, enc_X, size_X⟩ = refCodec ty_X := by decide
//	theorem ty_X_eq : ty_X = Schemas.<hand written stable schema> := by decide
//
// Every statement of the generated functions must match one of the shapes below EXACTLY (compared as
// gofmt-printed text with the expected field path substituted); the fixed wrappers (encodeX,
// decodeXExact, prologues, epilogues) are compared against templates.  Anything else is a hard error
// (exit 2): an unrecognised shape is a failed obligation, never a silent default.
//
// usage: codecgen -repo /repo -out /verif/lean
package main

import (
	"bytes"
	"crypto/sha256"
	"flag"
	"fmt"
	"go/ast"
	"go/parser"
	"go/printer"
	"go/token"
	"os"
	"path/filepath"
	"reflect"
	"regexp"
	"sort"
	"strconv"
	"strings"
)

const modPath = "github.com/skycoin/skycoin/"

var genDirs = []string{"src/coin", "src/daemon", "src/visor", "src/visor/blockdb", "src/visor/historydb"}

// hand-written stable schema (Sky.Codec.Schemas) that each generated codec's schema must equal
var stableName = map[string]string{
	"coin.BlockBody": "BlockBody", "coin.BlockHeader": "BlockHeader", "coin.transactionInputs": "TransactionInputs",
	"coin.transactionOutputs": "TransactionOutputs", "coin.Transaction": "Transaction", "coin.UxBody": "UxBody",
	"coin.UxHead": "UxHead", "coin.Block": "Block", "coin.SignedBlock": "SignedBlock", "coin.UxOut": "UxOut",
	"daemon.AnnounceBlocksMessage": "AnnounceBlocksMessage", "daemon.AnnounceTxnsMessage": "AnnounceTxnsMessage",
	"daemon.DisconnectMessage": "DisconnectMessage", "daemon.GetBlocksMessage": "GetBlocksMessage",
	"daemon.GetTxnsMessage": "GetTxnsMessage", "daemon.GiveBlocksMessage": "GiveBlocksMessage",
	"daemon.GivePeersMessage": "GivePeersMessage", "daemon.GiveTxnsMessage": "GiveTxnsMessage",
	"daemon.IntroductionMessage": "IntroductionMessage", "daemon.IPAddr": "IPAddr",
	"blockdb.hashPairsWrapper": "HashPairsWrapper", "blockdb.hashesWrapper": "HashesWrapper", "blockdb.sigWrapper": "SigWrapper",
	"historydb.hashesWrapper": "HashesWrapper", "historydb.Transaction": "HistoryTransaction", "historydb.UxOut": "HistoryUxOut",
	"visor.UnconfirmedTransaction": "UnconfirmedTransaction", "visor.UxArray": "UxArray",
}

// message types without a generated codec whose schema is also pinned (used by C22/C25)
var extraSchemas = [][2]string{{"src/daemon", "GetPeersMessage"}, {"src/daemon", "PingMessage"}, {"src/daemon", "PongMessage"},
	{"src/coin", "HashPair"}, {"src/coin", "TransactionOutput"}, {"src/cipher", "Address"}}

func fail(f string, a ...interface{}) {
	fmt.Fprintf(os.Stderr, "codecgen: "+f+"\n", a...)
	os.Exit(2)
}

// ---------------------------------------------------------------------------------------------
// packages and type declarations
// ---------------------------------------------------------------------------------------------

type pkgInfo struct {
	dir    string // relative to repo, e.g. src/coin
	name   string
	types  map[string]*typeDecl
	consts map[string]ast.Expr
}

type typeDecl struct {
	expr ast.Expr
	file *ast.File
	pkg  *pkgInfo
}

var (
	repo string
	fset = token.NewFileSet()
	pkgs = map[string]*pkgInfo{}
)

func loadPkg(dir string) *pkgInfo {
	if p, ok := pkgs[dir]; ok {
		return p
	}
	p := &pkgInfo{dir: dir, types: map[string]*typeDecl{}, consts: map[string]ast.Expr{}}
	pkgs[dir] = p
	ents, err := os.ReadDir(filepath.Join(repo, dir))
	if err != nil {
		fail("cannot read package dir %s: %v", dir, err)
	}
	for _, e := range ents {
		n := e.Name()
		if e.IsDir() || !strings.HasSuffix(n, ".go") || strings.HasSuffix(n, "_test.go") || strings.HasSuffix(n, "_verif.go") {
			continue
		}
		f, err := parser.ParseFile(fset, filepath.Join(repo, dir, n), nil, parser.ParseComments)
		if err != nil {
			fail("parse %s/%s: %v", dir, n, err)
		}
		if p.name == "" {
			p.name = f.Name.Name
		}
		for _, d := range f.Decls {
			gd, ok := d.(*ast.GenDecl)
			if !ok {
				continue
			}
			for _, s := range gd.Specs {
				switch s := s.(type) {
				case *ast.TypeSpec:
					p.types[s.Name.Name] = &typeDecl{expr: s.Type, file: f, pkg: p}
				case *ast.ValueSpec:
					if gd.Tok == token.CONST {
						for i, nm := range s.Names {
							if i < len(s.Values) {
								p.consts[nm.Name] = s.Values[i]
							}
						}
					}
				}
			}
		}
	}
	return p
}

// importDir maps a package qualifier used in file f to a repo-relative dir
func importDir(f *ast.File, qual string) string {
	for _, im := range f.Imports {
		path, _ := strconv.Unquote(im.Path.Value)
		local := path[strings.LastIndex(path, "/")+1:]
		if im.Name != nil {
			local = im.Name.Name
		}
		if local == qual {
			if !strings.HasPrefix(path, modPath) {
				fail("type from package %q outside the module is not supported", path)
			}
			return strings.TrimPrefix(path, modPath)
		}
	}
	fail("unknown package qualifier %q in %s", qual, fset.Position(f.Pos()).Filename)
	return ""
}

func constInt(e ast.Expr, p *pkgInfo, f *ast.File) int {
	switch e := e.(type) {
	case *ast.BasicLit:
		if e.Kind == token.INT {
			v, err := strconv.ParseInt(e.Value, 0, 64)
			if err == nil {
				return int(v)
			}
		}
	case *ast.ParenExpr:
		return constInt(e.X, p, f)
	case *ast.BinaryExpr:
		a, b := constInt(e.X, p, f), constInt(e.Y, p, f)
		switch e.Op {
		case token.ADD:
			return a + b
		case token.SUB:
			return a - b
		case token.MUL:
			return a * b
		}
	case *ast.Ident:
		if v, ok := p.consts[e.Name]; ok {
			return constInt(v, p, f)
		}
	case *ast.SelectorExpr:
		if q, ok := e.X.(*ast.Ident); ok {
			p2 := loadPkg(importDir(f, q.Name))
			if v, ok := p2.consts[e.Sel.Name]; ok {
				return constInt(v, p2, nil)
			}
		}
	}
	fail("unsupported constant expression %s", show(e))
	return 0
}

// ---------------------------------------------------------------------------------------------
// schema (what reflect shows the reference encoder)
// ---------------------------------------------------------------------------------------------

type Ty struct {
	Kind   string // u8 u16 u32 u64 i8 i16 i32 i64 bool bytesN array bytes str slice struct
	N      int    // bytesN / array length
	Max    int    // maxlen (bytes, str, slice)
	Elem   *Ty
	Fields []Field
}

type Field struct {
	Name string
	T    *Ty
	Omit bool
}

var basicKinds = map[string]string{"uint8": "u8", "byte": "u8", "uint16": "u16", "uint32": "u32", "uint64": "u64",
	"int8": "i8", "int16": "i16", "int32": "i32", "int64": "i64", "bool": "bool", "string": "str"}

var primSize = map[string]int{"u8": 1, "u16": 2, "u32": 4, "u64": 8, "i8": 1, "i16": 2, "i32": 4, "i64": 8, "bool": 1}

func exported(name string) bool { return name != "" && name[0] >= 'A' && name[0] <= 'Z' }

func schemaOf(e ast.Expr, p *pkgInfo, f *ast.File, seen []string) *Ty {
	switch e := e.(type) {
	case *ast.Ident:
		if k, ok := basicKinds[e.Name]; ok {
			return &Ty{Kind: k}
		}
		td, ok := p.types[e.Name]
		if !ok {
			fail("type %s.%s not found (or unsupported builtin)", p.name, e.Name)
		}
		key := p.dir + "." + e.Name
		for _, s := range seen {
			if s == key {
				fail("recursive type %s", key)
			}
		}
		return schemaOf(td.expr, td.pkg, td.file, append(seen, key))
	case *ast.SelectorExpr:
		q, ok := e.X.(*ast.Ident)
		if !ok {
			fail("unsupported type expression %s", show(e))
		}
		p2 := loadPkg(importDir(f, q.Name))
		return schemaOf(&ast.Ident{Name: e.Sel.Name}, p2, nil, seen)
	case *ast.ParenExpr:
		return schemaOf(e.X, p, f, seen)
	case *ast.ArrayType:
		el := schemaOf(e.Elt, p, f, seen)
		if e.Len == nil {
			if el.Kind == "u8" {
				return &Ty{Kind: "bytes"}
			}
			return &Ty{Kind: "slice", Elem: el}
		}
		n := constInt(e.Len, p, f)
		if el.Kind == "u8" {
			return &Ty{Kind: "bytesN", N: n}
		}
		return &Ty{Kind: "array", N: n, Elem: el}
	case *ast.StructType:
		t := &Ty{Kind: "struct"}
		nf := 0
		for _, fl := range e.Fields.List {
			if len(fl.Names) == 0 {
				nf++
			} else {
				nf += len(fl.Names)
			}
		}
		idx := 0
		for _, fl := range e.Fields.List {
			tag := ""
			if fl.Tag != nil {
				raw, _ := strconv.Unquote(fl.Tag.Value)
				tag = reflect.StructTag(raw).Get("enc")
			}
			names := []string{}
			if len(fl.Names) == 0 { // embedded
				switch x := fl.Type.(type) {
				case *ast.Ident:
					names = append(names, x.Name)
				case *ast.SelectorExpr:
					names = append(names, x.Sel.Name)
				default:
					fail("unsupported embedded field %s", show(fl.Type))
				}
			}
			for _, n := range fl.Names {
				names = append(names, n.Name)
			}
			for _, name := range names {
				last := idx == nf-1
				idx++
				if !exported(name) { // reflect: ff.PkgPath != ""
					continue
				}
				omit := strings.Contains(tag, ",omitempty")
				if omit && !last {
					fail("omitempty on non-final field %s: the reference encoder panics (ErrInvalidOmitEmpty)", name)
				}
				if len(tag) > 0 && tag[0] == '-' {
					continue
				}
				ft := schemaOf(fl.Type, p, f, seen)
				if i := strings.Index(tag, ",maxlen="); i >= 0 {
					rem := tag[i+len(",maxlen="):]
					if j := strings.Index(rem, ","); j >= 0 {
						rem = rem[:j]
					}
					m, err := strconv.Atoi(rem)
					if err != nil || m < 0 {
						fail("bad maxlen tag on %s", name)
					}
					switch ft.Kind {
					case "bytes", "str", "slice":
						c := *ft
						c.Max = m
						ft = &c
					default:
						fail("maxlen tag on field %s of kind %s is not supported", name, ft.Kind)
					}
				}
				if omit {
					switch ft.Kind {
					case "bytes", "str", "slice":
					default:
						fail("omitempty on field %s of kind %s is not supported (only slice/string)", name, ft.Kind)
					}
				}
				t.Fields = append(t.Fields, Field{Name: name, T: ft, Omit: omit})
			}
		}
		return t
	}
	fail("unsupported type expression %s (%T)", show(e), e)
	return nil
}

// leanTy renders the schema: a struct is the right-nested pair of its encoded fields.
func leanTy(t *Ty) string {
	switch t.Kind {
	case "u8", "u16", "u32", "u64", "i8", "i16", "i32", "i64", "bool":
		return "Ty." + t.Kind
	case "bytesN":
		return fmt.Sprintf("(Ty.bytesN %d)", t.N)
	case "array":
		return fmt.Sprintf("(Ty.array %d %s)", t.N, leanTy(t.Elem))
	case "bytes":
		return fmt.Sprintf("(Ty.bytes %d)", t.Max)
	case "str":
		return fmt.Sprintf("(Ty.str %d)", t.Max)
	case "slice":
		return fmt.Sprintf("(Ty.slice %d %s)", t.Max, leanTy(t.Elem))
	case "struct":
		if len(t.Fields) == 0 {
			return "Ty.unit"
		}
		var rec func(i int) string
		rec = func(i int) string {
			f := t.Fields[i]
			s := leanTy(f.T)
			if f.Omit {
				s = "(Ty.omitempty " + s + ")"
			}
			if i == len(t.Fields)-1 {
				return s
			}
			return "(Ty.pair " + s + " " + rec(i+1) + ")"
		}
		return rec(0)
	}
	fail("leanTy: kind %s", t.Kind)
	return ""
}

// static: encoded size does not depend on the value
func static(t *Ty) bool {
	switch t.Kind {
	case "bytes", "str", "slice":
		return false
	case "array":
		return static(t.Elem)
	case "struct":
		for _, f := range t.Fields {
			if f.Omit || !static(f.T) {
				return false
			}
		}
	}
	return true
}

// ---------------------------------------------------------------------------------------------
// matching helpers: statements are compared as printed text
// ---------------------------------------------------------------------------------------------

func show(n interface{}) string {
	var b bytes.Buffer
	if err := printer.Fprint(&b, fset, n); err != nil {
		return fmt.Sprintf("<%v>", err)
	}
	return b.String()
}

// norm collapses all whitespace so that templates are insensitive to formatting
func norm(s string) string { return strings.Join(strings.Fields(s), " ") }

type cursor struct {
	fn    string
	stmts []ast.Stmt
	pos   int
}

func (c *cursor) peek() ast.Stmt {
	if c.pos >= len(c.stmts) {
		return nil
	}
	return c.stmts[c.pos]
}

func (c *cursor) where() string {
	if s := c.peek(); s != nil {
		return fmt.Sprintf("%s (%s)", c.fn, fset.Position(s.Pos()))
	}
	return c.fn + " (end of block)"
}

// expect consumes one statement that must print exactly as want
func (c *cursor) expect(want string) {
	s := c.peek()
	if s == nil {
		fail("%s: expected `%s`, found end of block", c.where(), want)
	}
	if got := norm(show(s)); got != norm(want) {
		fail("%s: unrecognised shape\n  expected: %s\n  found:    %s", c.where(), norm(want), got)
	}
	c.pos++
}

// try consumes one statement if it prints exactly as want
func (c *cursor) try(want string) bool {
	s := c.peek()
	if s != nil && norm(show(s)) == norm(want) {
		c.pos++
		return true
	}
	return false
}

// match consumes one statement matching the regex (on normalised text); returns submatches
func (c *cursor) match(re string) []string {
	s := c.peek()
	if s == nil {
		return nil
	}
	m := regexp.MustCompile("^" + re + "$").FindStringSubmatch(norm(show(s)))
	if m != nil {
		c.pos++
	}
	return m
}

func (c *cursor) end() {
	if c.pos != len(c.stmts) {
		fail("%s: unexpected extra statement: %s", c.where(), norm(show(c.peek())))
	}
}

func q(s string) string { return regexp.QuoteMeta(s) }

// ---------------------------------------------------------------------------------------------
// decodeX
// ---------------------------------------------------------------------------------------------

var decMethod = map[string]string{"u8": "Uint8", "u16": "Uint16", "u32": "Uint32", "u64": "Uint64",
	"i8": "Int8", "i16": "Int16", "i32": "Int32", "i64": "Int64", "bool": "Bool"}

const retConsumed = "return uint64(len(buf) - len(d.Buffer)), nil"

// lenExpr parses `len(PATH)` (PATH must be the current field, an [n]byte) or an integer literal
func lenExpr(s, path string, n int, where string) int {
	if s == "len("+path+")" {
		return n
	}
	if v, err := strconv.Atoi(s); err == nil {
		return v
	}
	fail("%s: unrecognised length expression %q for %s", where, s, path)
	return 0
}

// decField parses the block(s) decoding one field of schema t stored at Go expression `path`;
// returns the ops (Lean constructor applications without the trailing continuation).
func decField(c *cursor, t *Ty, path string, omit bool, depth *int) []string {
	if t.Kind == "struct" {
		var ops []string
		for _, f := range t.Fields {
			ops = append(ops, decField(c, f.T, path+"."+f.Name, f.Omit, depth)...)
		}
		return ops
	}
	blk, ok := c.peek().(*ast.BlockStmt)
	if !ok {
		fail("%s: expected a block decoding %s", c.where(), path)
	}
	c.pos++
	b := &cursor{fn: c.fn, stmts: blk.List}
	var op string
	switch t.Kind {
	case "u8", "u16", "u32", "u64", "i8", "i16", "i32", "i64", "bool":
		b.expect("i, err := d." + decMethod[t.Kind] + "()")
		b.expect("if err != nil { return 0, err }")
		b.expect(path + " = i")
		op = "DProg.prim Prim." + t.Kind
	case "bytesN":
		m := b.match(`if len\(d\.Buffer\) < (.+) \{ return 0, encoder\.ErrBufferUnderflow \}`)
		guard := -1
		if m != nil {
			guard = lenExpr(m[1], path, t.N, b.where())
		}
		m = b.match(`copy\(` + q(path) + `\[:\], d\.Buffer\[:(.+)\]\)`)
		if m == nil {
			fail("%s: unrecognised shape for fixed byte array %s: %s", b.where(), path, norm(show(b.peek())))
		}
		n1 := lenExpr(m[1], path, t.N, b.where())
		m = b.match(`d\.Buffer = d\.Buffer\[(.+):\]`)
		if m == nil {
			fail("%s: unrecognised shape (advance) for %s", b.where(), path)
		}
		n2 := lenExpr(m[1], path, t.N, b.where())
		if n1 != n2 || n1 != t.N {
			fail("%s: copies %d bytes but advances %d for %s ([%d]byte)", b.where(), n1, n2, path, t.N)
		}
		if guard < 0 {
			op = fmt.Sprintf("DProg.copyN none %d", n1)
		} else {
			op = fmt.Sprintf("DProg.copyN (some %d) %d", guard, n1)
		}
	case "bytes", "str", "slice":
		eof := b.try("if len(d.Buffer) == 0 { " + retConsumed + " }")
		b.expect("ul, err := d.Uint32()")
		b.expect("if err != nil { return 0, err }")
		b.expect("length := int(ul)")
		uchk := b.try("if length < 0 || length > len(d.Buffer) { return 0, encoder.ErrBufferUnderflow }")
		max := 0
		if m := b.match(`if length > (\d+) \{ return 0, encoder\.ErrMaxLenExceeded \}`); m != nil {
			max, _ = strconv.Atoi(m[1])
			if max == 0 {
				fail("%s: maxlen check against 0", b.where())
			}
		}
		ifs, ok := b.peek().(*ast.IfStmt)
		if !ok || ifs.Init != nil || ifs.Else != nil || norm(show(ifs.Cond)) != "length != 0" {
			fail("%s: expected `if length != 0 {…}` for %s, found %s", b.where(), path, norm(show(b.peek())))
		}
		b.pos++
		in := &cursor{fn: c.fn, stmts: ifs.Body.List}
		if in.match(q(path)+` = make\(\[\].+, length\)`) == nil {
			fail("%s: expected `%s = make([]T, length)`", in.where(), path)
		}
		flags := fmt.Sprintf("%v %v %d", eof, uchk, max)
		switch t.Kind {
		case "bytes":
			in.expect("copy(" + path + "[:], d.Buffer[:length])")
			in.expect("d.Buffer = d.Buffer[length:]")
			op = "DProg.lenBytes " + flags
		case "str":
			fail("%s: no known generated shape for string fields (%s)", in.where(), path)
		case "slice":
			rs, ok := in.peek().(*ast.RangeStmt)
			if !ok {
				fail("%s: expected `for z := range %s`", in.where(), path)
			}
			*depth++
			z := norm(show(rs.Key))
			if rs.Value != nil || rs.Tok != token.DEFINE || !regexp.MustCompile(`^z\d+$`).MatchString(z) || norm(show(rs.X)) != path {
				fail("%s: expected `for zN := range %s`, found `%s`", in.where(), path, norm(show(rs))[:60])
			}
			in.pos++
			body := &cursor{fn: c.fn, stmts: rs.Body.List}
			ops := decField(body, t.Elem, path+"["+z+"]", false, depth)
			body.end()
			op = "DProg.lenLoop " + flags + " " + seqD(ops)
		}
		in.end()
	default:
		fail("%s: no known generated shape for kind %s (%s)", b.where(), t.Kind, path)
	}
	b.end()
	_ = omit // whether the eof test is present is recorded in the op; refCodec says where it must be
	return []string{op}
}

func seqD(ops []string) string {
	s := "DProg.done"
	for i := len(ops) - 1; i >= 0; i-- {
		s = "(" + ops[i] + " " + s + ")"
	}
	return s
}

func parseDecode(fd *ast.FuncDecl, t *Ty) string {
	c := &cursor{fn: fd.Name.Name, stmts: fd.Body.List}
	c.expect("d := &encoder.Decoder{ Buffer: buf[:], }")
	depth := 0
	ops := decField(c, t, "obj", false, &depth)
	c.expect(retConsumed)
	c.end()
	return seqD(ops)
}

// ---------------------------------------------------------------------------------------------
// encodeXToBuffer
// ---------------------------------------------------------------------------------------------

func encField(c *cursor, t *Ty, path string, omit bool) []string {
	if t.Kind == "struct" {
		var ops []string
		for _, f := range t.Fields {
			ops = append(ops, encField(c, f.T, path+"."+f.Name, f.Omit)...)
		}
		return ops
	}
	switch t.Kind {
	case "u8", "u16", "u32", "u64", "i8", "i16", "i32", "i64", "bool":
		c.expect("e." + decMethod[t.Kind] + "(" + path + ")")
		return []string{"EProg.prim Prim." + t.Kind}
	case "bytesN":
		c.expect("e.CopyBytes(" + path + "[:])")
		return []string{fmt.Sprintf("EProg.copyN %d", t.N)}
	case "bytes", "str", "slice":
		cur := c
		guarded := false
		if ifs, ok := c.peek().(*ast.IfStmt); ok && ifs.Init == nil && ifs.Else == nil && norm(show(ifs.Cond)) == "len("+path+") != 0" {
			guarded = true
			c.pos++
			cur = &cursor{fn: c.fn, stmts: ifs.Body.List}
		}
		max := 0
		if m := cur.match(`if len\(` + q(path) + `\) > (\d+) \{ return encoder\.ErrMaxLenExceeded \}`); m != nil {
			max, _ = strconv.Atoi(m[1])
			if max == 0 {
				fail("%s: maxlen check against 0", cur.where())
			}
		}
		lenchk := cur.try("if uint64(len(" + path + ")) > math.MaxUint32 { return errors.New(\"" + path + " length exceeds math.MaxUint32\") }")
		cur.expect("e.Uint32(uint32(len(" + path + ")))")
		flags := fmt.Sprintf("%v %d %v", guarded, max, lenchk)
		var op string
		switch t.Kind {
		case "bytes":
			cur.expect("e.CopyBytes(" + path + ")")
			op = "EProg.lenBytes " + flags
		case "str":
			fail("%s: no known generated shape for string fields (%s)", cur.where(), path)
		case "slice":
			rs, ok := cur.peek().(*ast.RangeStmt)
			if !ok || rs.Tok != token.DEFINE || norm(show(rs.Key)) != "_" || rs.Value == nil || norm(show(rs.Value)) != "x" || norm(show(rs.X)) != path {
				fail("%s: expected `for _, x := range %s`", cur.where(), path)
			}
			cur.pos++
			body := &cursor{fn: c.fn, stmts: rs.Body.List}
			ops := encField(body, t.Elem, "x", false)
			body.end()
			op = "EProg.lenLoop " + flags + " " + seqE(ops)
		}
		if guarded {
			cur.end()
		}
		return []string{op}
	}
	fail("%s: no known generated shape for kind %s (%s)", c.where(), t.Kind, path)
	return nil
}

func seqE(ops []string) string {
	s := "EProg.done"
	for i := len(ops) - 1; i >= 0; i-- {
		s = "(" + ops[i] + " " + s + ")"
	}
	return s
}

func parseEncode(fd *ast.FuncDecl, t *Ty, name string) string {
	c := &cursor{fn: fd.Name.Name, stmts: fd.Body.List}
	c.expect("if uint64(len(buf)) < encodeSize" + name + "(obj) { return encoder.ErrBufferUnderflow }")
	c.expect("e := &encoder.Encoder{ Buffer: buf[:], }")
	ops := encField(c, t, "obj", false)
	c.expect("return nil")
	c.end()
	return seqE(ops)
}

// ---------------------------------------------------------------------------------------------
// encodeSizeX
// ---------------------------------------------------------------------------------------------

// sizeField: acc is the accumulator variable (i0, i1, …), path the Go expression of the value; inside
// a multiplied block (static elements) no path is referenced.
func sizeField(c *cursor, t *Ty, path string, omit bool, acc string, depth int) []string {
	if t.Kind == "struct" {
		var ops []string
		for _, f := range t.Fields {
			ops = append(ops, sizeField(c, f.T, path+"."+f.Name, f.Omit, acc, depth)...)
		}
		return ops
	}
	add := func(cur *cursor, n int) {
		if n == 1 && cur.try(acc+"++") {
			return
		}
		cur.expect(fmt.Sprintf("%s += %d", acc, n))
	}
	switch t.Kind {
	case "u8", "u16", "u32", "u64", "i8", "i16", "i32", "i64", "bool":
		add(c, primSize[t.Kind])
		return []string{fmt.Sprintf("SProg.add %d", primSize[t.Kind])}
	case "bytesN":
		add(c, t.N)
		return []string{fmt.Sprintf("SProg.add %d", t.N)}
	case "bytes", "str", "slice":
		cur := c
		guarded := false
		if ifs, ok := c.peek().(*ast.IfStmt); ok && ifs.Init == nil && ifs.Else == nil && norm(show(ifs.Cond)) == "len("+path+") != 0" {
			guarded = true
			c.pos++
			cur = &cursor{fn: c.fn, stmts: ifs.Body.List}
		}
		var op string
		if t.Kind == "str" {
			fail("%s: no known generated shape for string fields (%s)", cur.where(), path)
		}
		if t.Kind != "slice" {
			cur.expect(acc + " += 4 + uint64(len(" + path + "))")
			op = fmt.Sprintf("SProg.lenBytes %v", guarded)
		} else {
			cur.expect(acc + " += 4")
			inner := ""
			newAcc := func(b *cursor) {
				m := b.match(`(i\d+) := uint64\(0\)`)
				if m == nil || m[1] == acc {
					fail("%s: expected `iN := uint64(0)`", b.where())
				}
				inner = m[1]
			}
			if blk, ok := cur.peek().(*ast.BlockStmt); ok {
				// static elements: { i1 := uint64(0); …; i0 += uint64(len(PATH)) * i1 }
				cur.pos++
				b := &cursor{fn: c.fn, stmts: blk.List}
				newAcc(b)
				ops := sizeField(b, t.Elem, "\x00no-path", false, inner, depth+1)
				b.expect(acc + " += uint64(len(" + path + ")) * " + inner)
				b.end()
				op = fmt.Sprintf("SProg.lenMul %v %s", guarded, seqS(ops))
			} else if rs, ok := cur.peek().(*ast.RangeStmt); ok {
				x := ""
				if rs.Value != nil {
					x = norm(show(rs.Value))
				}
				if rs.Tok != token.DEFINE || norm(show(rs.Key)) != "_" || !regexp.MustCompile(`^x\d+$`).MatchString(x) || norm(show(rs.X)) != path {
					fail("%s: expected `for _, xN := range %s`", cur.where(), path)
				}
				cur.pos++
				b := &cursor{fn: c.fn, stmts: rs.Body.List}
				newAcc(b)
				ops := sizeField(b, t.Elem, x, false, inner, depth+1)
				b.expect(acc + " += " + inner)
				b.end()
				op = fmt.Sprintf("SProg.lenLoop %v %s", guarded, seqS(ops))
			} else {
				fail("%s: expected the element-size block or loop of %s", cur.where(), path)
			}
		}
		if guarded {
			cur.end()
		}
		return []string{op}
	}
	fail("%s: no known generated shape for kind %s (%s)", c.where(), t.Kind, path)
	return nil
}

func seqS(ops []string) string {
	s := "SProg.done"
	for i := len(ops) - 1; i >= 0; i-- {
		s = "(" + ops[i] + " " + s + ")"
	}
	return s
}

func parseSize(fd *ast.FuncDecl, t *Ty) string {
	c := &cursor{fn: fd.Name.Name, stmts: fd.Body.List}
	c.expect("i0 := uint64(0)")
	ops := sizeField(c, t, "obj", false, "i0", 0)
	c.expect("return i0")
	c.end()
	return seqS(ops)
}

// ---------------------------------------------------------------------------------------------
// one generated file
// ---------------------------------------------------------------------------------------------

type codec struct {
	id, goType, file, sha     string
	ty, dec, enc, size, stable string
}

func sigOf(fd *ast.FuncDecl) string {
	return norm(show(fd.Type))
}

func processFile(dir, fname string) codec {
	path := filepath.Join(repo, dir, fname)
	src, err := os.ReadFile(path)
	if err != nil {
		fail("%v", err)
	}
	f, err := parser.ParseFile(fset, path, src, 0)
	if err != nil {
		fail("parse %s: %v", path, err)
	}
	if !bytes.HasPrefix(src, []byte("// Code generated by github.com/skycoin/skyencoder. DO NOT EDIT.")) {
		fail("%s: missing skyencoder header", path)
	}
	funcs := map[string]*ast.FuncDecl{}
	var order []string
	for _, d := range f.Decls {
		if fd, ok := d.(*ast.FuncDecl); ok {
			if fd.Recv != nil {
				fail("%s: unexpected method %s", path, fd.Name.Name)
			}
			funcs[fd.Name.Name] = fd
			order = append(order, fd.Name.Name)
		}
	}
	// name X from encodeSizeX
	var X string
	for _, n := range order {
		if strings.HasPrefix(n, "encodeSize") {
			X = strings.TrimPrefix(n, "encodeSize")
		}
	}
	if X == "" {
		fail("%s: no encodeSizeX function", path)
	}
	want := []string{"encodeSize" + X, "encode" + X, "encode" + X + "ToBuffer", "decode" + X, "decode" + X + "Exact"}
	if len(order) != len(want) {
		fail("%s: expected exactly the functions %v, found %v", path, want, order)
	}
	for _, w := range want {
		if funcs[w] == nil {
			fail("%s: missing function %s", path, w)
		}
	}
	// the Go type: parameter `obj *T` of encodeSizeX
	fd := funcs["encodeSize"+X]
	m := regexp.MustCompile(`^func\(obj \*([A-Za-z0-9_.]+)\) uint64$`).FindStringSubmatch(sigOf(fd))
	if m == nil {
		fail("%s: unexpected signature %s", path, sigOf(fd))
	}
	T := m[1]
	pk := loadPkg(dir)
	var texpr ast.Expr
	goType := pk.name + "." + T
	if i := strings.Index(T, "."); i >= 0 {
		texpr = &ast.SelectorExpr{X: &ast.Ident{Name: T[:i]}, Sel: &ast.Ident{Name: T[i+1:]}}
		goType = T
	} else {
		texpr = &ast.Ident{Name: T}
	}
	ty := schemaOf(texpr, pk, f, nil)
	if ty.Kind != "struct" {
		fail("%s: %s is not a struct", path, T)
	}
	// fixed signatures and wrappers
	sigs := map[string]string{
		"encode" + X:              "func(obj *" + T + ") ([]byte, error)",
		"encode" + X + "ToBuffer": "func(buf []byte, obj *" + T + ") error",
		"decode" + X:              "func(buf []byte, obj *" + T + ") (uint64, error)",
		"decode" + X + "Exact":    "func(buf []byte, obj *" + T + ") error",
	}
	for n, s := range sigs {
		if sigOf(funcs[n]) != s {
			fail("%s: %s has signature %s, expected %s", path, n, sigOf(funcs[n]), s)
		}
	}
	w := &cursor{fn: "encode" + X, stmts: funcs["encode"+X].Body.List}
	w.expect("n := encodeSize" + X + "(obj)")
	w.expect("buf := make([]byte, n)")
	w.expect("if err := encode" + X + "ToBuffer(buf, obj); err != nil { return nil, err }")
	w.expect("return buf, nil")
	w.end()
	w = &cursor{fn: "decode" + X + "Exact", stmts: funcs["decode"+X+"Exact"].Body.List}
	w.expect("if n, err := decode" + X + "(buf, obj); err != nil { return err } else if n != uint64(len(buf)) { return encoder.ErrRemainingBytes }")
	w.expect("return nil")
	w.end()

	c := codec{goType: goType, file: filepath.Join(dir, fname), sha: fmt.Sprintf("%x", sha256.Sum256(src))[:16]}
	c.id = strings.ReplaceAll(filepath.Base(dir)+"_"+X, ".", "_")
	c.ty = leanTy(ty)
	c.dec = parseDecode(funcs["decode"+X], ty)
	c.enc = parseEncode(funcs["encode"+X+"ToBuffer"], ty, X)
	c.size = parseSize(funcs["encodeSize"+X], ty)
	key := goType
	if strings.Index(T, ".") < 0 {
		key = filepath.Base(dir) + "." + T
	}
	c.stable = stableName[key]
	if c.stable == "" {
		fail("%s: no stable schema name registered for %s (add it to Sky/Codec/Schemas.lean and codecgen)", path, key)
	}
	return c
}

// ---------------------------------------------------------------------------------------------
// wire protocol tables (C22): message ids, Serializer methods of the message types, framing constants
// ---------------------------------------------------------------------------------------------

func findFunc(dir, recv, name string) *ast.FuncDecl {
	ents, _ := os.ReadDir(filepath.Join(repo, dir))
	for _, e := range ents {
		n := e.Name()
		if e.IsDir() || !strings.HasSuffix(n, ".go") || strings.HasSuffix(n, "_test.go") || strings.HasSuffix(n, "_verif.go") {
			continue
		}
		f, err := parser.ParseFile(fset, filepath.Join(repo, dir, n), nil, 0)
		if err != nil {
			fail("parse %s/%s: %v", dir, n, err)
		}
		for _, d := range f.Decls {
			fd, ok := d.(*ast.FuncDecl)
			if !ok || fd.Name.Name != name {
				continue
			}
			if recv == "" && fd.Recv == nil {
				return fd
			}
			if recv != "" && fd.Recv != nil && len(fd.Recv.List) == 1 && norm(show(fd.Recv.List[0].Type)) == "*"+recv {
				return fd
			}
		}
	}
	return nil
}

func oneReturn(fd *ast.FuncDecl, what string) string {
	if fd == nil || fd.Body == nil || len(fd.Body.List) != 1 {
		fail("%s: expected a single return statement", what)
	}
	return norm(show(fd.Body.List[0]))
}

// messageTable returns Lean text for the table `messages` and the framing constants.
func messageTable(cs []codec) string {
	fd := findFunc("src/daemon", "", "getMessageConfigs")
	if fd == nil || len(fd.Body.List) != 1 {
		fail("daemon.getMessageConfigs: unrecognised shape")
	}
	ret, ok := fd.Body.List[0].(*ast.ReturnStmt)
	if !ok || len(ret.Results) != 1 {
		fail("daemon.getMessageConfigs: expected `return []MessageConfig{…}`")
	}
	lit, ok := ret.Results[0].(*ast.CompositeLit)
	if !ok || norm(show(lit.Type)) != "[]MessageConfig" {
		fail("daemon.getMessageConfigs: expected a []MessageConfig literal")
	}
	generated := map[string]string{}
	for _, c := range cs {
		generated[c.id] = c.id
	}
	pk := loadPkg("src/daemon")
	var b strings.Builder
	b.WriteString("/-! ### wire protocol (C22): message id table of daemon.getMessageConfigs and framing constants -/\n")
	b.WriteString("/-- (4-byte id, Go type, schema the type's Decode method implements) -/\n")
	b.WriteString("def messages : List (Bytes × String × Ty) := [\n")
	for i, el := range lit.Elts {
		m := regexp.MustCompile(`^NewMessageConfig\("([^"]*)", ([A-Za-z0-9_]+)\{\}\)$`).FindStringSubmatch(norm(show(el)))
		if m == nil {
			fail("daemon.getMessageConfigs: unrecognised entry %s", norm(show(el)))
		}
		prefix, T := m[1], m[2]
		if len(prefix) == 0 || len(prefix) > 4 {
			fail("message prefix %q: gnet.MessagePrefixFromString panics", prefix)
		}
		id := make([]string, 4)
		for k := 0; k < 4; k++ {
			if k < len(prefix) {
				id[k] = strconv.Itoa(int(prefix[k]))
			} else {
				id[k] = "0"
			}
		}
		ty := schemaOf(&ast.Ident{Name: T}, pk, nil, nil)
		// the Serializer methods must delegate to the generated codec, or be the trivial ones of an empty message
		var recvName string
		dec := findFunc("src/daemon", T, "Decode")
		if dec == nil || len(dec.Recv.List[0].Names) != 1 {
			fail("%s.Decode not found", T)
		}
		recvName = dec.Recv.List[0].Names[0].Name
		decS := oneReturn(dec, T+".Decode")
		leanT := ""
		if _, ok := generated["daemon_"+T]; ok && decS == "return decode"+T+"(buf, "+recvName+")" {
			for name, mth := range map[string]string{"Encode": "return encode" + T + "ToBuffer(buf, %s)", "EncodeSize": "return encodeSize" + T + "(%s)"} {
				f2 := findFunc("src/daemon", T, name)
				if f2 == nil || len(f2.Recv.List[0].Names) != 1 {
					fail("%s.%s not found", T, name)
				}
				if got := oneReturn(f2, T+"."+name); got != fmt.Sprintf(mth, f2.Recv.List[0].Names[0].Name) {
					fail("%s.%s: unrecognised shape %q", T, name, got)
				}
			}
			leanT = "ty_daemon_" + T
		} else if decS == "return 0, nil" {
			if len(ty.Fields) != 0 {
				fail("%s.Decode ignores the buffer but the struct has encoded fields", T)
			}
			if oneReturn(findFunc("src/daemon", T, "Encode"), T+".Encode") != "return nil" ||
				oneReturn(findFunc("src/daemon", T, "EncodeSize"), T+".EncodeSize") != "return 0" {
				fail("%s: Encode/EncodeSize of an empty message must be `return nil` / `return 0`", T)
			}
			leanT = "Ty.unit"
		} else {
			fail("%s.Decode: unrecognised shape %q", T, decS)
		}
		sep := ","
		if i == len(lit.Elts)-1 {
			sep = ""
		}
		fmt.Fprintf(&b, "  ([%s], %q, %s)%s\n", strings.Join(id, ", "), T, leanT, sep)
	}
	b.WriteString("]\n")
	// constants
	gn := loadPkg("src/daemon/gnet")
	for _, c := range []string{"messagePrefixLength", "messageLengthPrefixSize"} {
		e, ok := gn.consts[c]
		if !ok {
			fail("gnet constant %s not found", c)
		}
		fmt.Fprintf(&b, "def %s : Nat := %d\n", c, constInt(e, gn, nil))
	}
	src, err := os.ReadFile(filepath.Join(repo, "src/daemon/gnet/pool.go"))
	if err != nil {
		fail("%v", err)
	}
	mq := regexp.MustCompile(`msgC := make\(chan \[\]byte, (\d+)\)`).FindAllSubmatch(src, -1)
	if len(mq) != 1 {
		fail("gnet/pool.go: expected exactly one `msgC := make(chan []byte, N)`")
	}
	fmt.Fprintf(&b, "def msgChanCap : Nat := %s\n\n", mq[0][1])
	return b.String()
}

// introConsts: constants used by IntroductionMessage.Verify (C25), read from the source text
func introConsts() string {
	grab := func(file, re string) string {
		src, err := os.ReadFile(filepath.Join(repo, file))
		if err != nil {
			fail("%v", err)
		}
		m := regexp.MustCompile(re).FindAllSubmatch(src, -1)
		if len(m) != 1 {
			fail("%s: expected exactly one match of %s, found %d", file, re, len(m))
		}
		return string(m[0][1])
	}
	var b strings.Builder
	b.WriteString("/-! ### constants of the introduction handshake (C25) -/\n")
	fmt.Fprintf(&b, "def paramsMinBurnFactor : Nat := %s\n", grab("src/params/verify_txn.go", `(?m)^\s*MinBurnFactor uint32 = (\d+)$`))
	fmt.Fprintf(&b, "def paramsMinTransactionSize : Nat := %s\n", grab("src/params/verify_txn.go", `(?m)^\s*MinTransactionSize uint32 = (\d+)$`))
	fmt.Fprintf(&b, "def dropletExponent : Nat := %s\n", grab("src/util/droplet/droplet.go", `(?m)^\s*Exponent = (\d+)$`))
	fmt.Fprintf(&b, "def useragentMaxLen : Nat := %s\n", grab("src/util/useragent/useragent.go", `(?m)^\s*MaxLen = (\d+)$`))
	for _, c := range [][2]string{{"useragentIllegalChars", "IllegalChars"}, {"useragentNamePattern", "NamePattern"},
		{"useragentVersionPattern", "VersionPattern"}, {"useragentRemarkPattern", "RemarkPattern"}, {"useragentPattern", "Pattern"}} {
		v := grab("src/util/useragent/useragent.go", `(?m)^\s*`+c[1]+` = (.+)$`)
		fmt.Fprintf(&b, "def %s : String := %s\n", c[0], strconv.Quote(v))
	}
	fmt.Fprintf(&b, "def useragentSanitizeRe : String := %s\n", strconv.Quote(grab("src/util/useragent/useragent.go", `(?m)^\s*illegalCharsSanitizeRe = (.+)$`)))
	b.WriteString("\n")
	return b.String()
}

func writeIfChanged(dst, content string) bool {
	if old, err := os.ReadFile(dst); err == nil && string(old) == content {
		return false
	}
	if err := os.WriteFile(dst, []byte(content), 0o644); err != nil {
		fail("%v", err)
	}
	return true
}

func main() {
	out := flag.String("out", "/verif/lean", "lean project root")
	flag.StringVar(&repo, "repo", "/repo", "repository root")
	flag.Parse()
	var cs []codec
	for _, d := range genDirs {
		ents, err := os.ReadDir(filepath.Join(repo, d))
		if err != nil {
			fail("%v", err)
		}
		for _, e := range ents {
			if strings.HasSuffix(e.Name(), "_skyencoder.go") {
				cs = append(cs, processFile(d, e.Name()))
			}
		}
	}
	sort.Slice(cs, func(i, j int) bool { return cs[i].id < cs[j].id })
	if len(cs) != 29 {
		fail("expected 29 generated codecs, found %d", len(cs))
	}
	// two modules: definitions (imported by the drivers, must always build) and obligations
	var b, th strings.Builder
	b.WriteString("/- AUTOGENERATED by tools/extract/codecgen from the *_skyencoder.go files and the Go struct declarations.\n")
	b.WriteString("   Regenerated on every `./check C21`; do not edit. Definitions only; the obligations are in CodecsThm.lean. -/\n")
	b.WriteString("import Sky.Codec.Prog\nnamespace Sky.Gen.Codecs\nopen Sky.Codec\n\n")
	th.WriteString("/- AUTOGENERATED by tools/extract/codecgen: the per-file refinement obligations of C21. Do not edit. -/\n")
	th.WriteString("import Sky.Gen.Codecs\nimport Sky.Codec.Schemas\nnamespace Sky.Gen.Codecs\nopen Sky.Codec\n\n")
	for _, c := range cs {
		fmt.Fprintf(&b, "/-! ### %s — %s (sha256 %s) -/\n", c.goType, c.file, c.sha)
		fmt.Fprintf(&b, "def ty_%s : Ty :=\n  %s\n", c.id, c.ty)
		fmt.Fprintf(&b, "def dec_%s : DProg :=\n  %s\n", c.id, c.dec)
		fmt.Fprintf(&b, "def enc_%s : EProg :=\n  %s\n", c.id, c.enc)
		fmt.Fprintf(&b, "def size_%s : SProg :=\n  %s\n", c.id, c.size)
		fmt.Fprintf(&b, "def prog_%s : GenCodec := ⟨dec_%s, enc_%s, size_%s⟩\n\n", c.id, c.id, c.id, c.id)
		fmt.Fprintf(&th, "/-- %s (%s) -/\n", c.goType, c.file)
		fmt.Fprintf(&th, "theorem gen_%s_refines : denote prog_%s = refCodec ty_%s := by decide\n", c.id, c.id, c.id)
		fmt.Fprintf(&th, "theorem ty_%s_eq : ty_%s = Schemas.%s := by decide\n\n", c.id, c.id, c.stable)
	}
	b.WriteString("/-! ### schemas of types without a generated codec that other models use -/\n")
	for _, e := range extraSchemas {
		pk := loadPkg(e[0])
		t := schemaOf(&ast.Ident{Name: e[1]}, pk, nil, nil)
		id := filepath.Base(e[0]) + "_" + e[1]
		fmt.Fprintf(&b, "def ty_%s : Ty :=\n  %s\n", id, leanTy(t))
		fmt.Fprintf(&th, "theorem ty_%s_eq : ty_%s = Schemas.%s := by decide\n", id, id, e[1])
	}
	b.WriteString("\n" + messageTable(cs))
	b.WriteString(introConsts())
	b.WriteString("/-- all generated codecs: (name, schema, program) -/\ndef all : List (String × Ty × GenCodec) := [\n")
	for i, c := range cs {
		sep := ","
		if i == len(cs)-1 {
			sep = ""
		}
		fmt.Fprintf(&b, "  (%q, ty_%s, prog_%s)%s\n", c.id, c.id, c.id, sep)
	}
	b.WriteString("]\n\nend Sky.Gen.Codecs\n")
	th.WriteString("\nend Sky.Gen.Codecs\n")
	writeIfChanged(filepath.Join(*out, "Sky/Gen/CodecsThm.lean"), th.String())
	dst := filepath.Join(*out, "Sky/Gen/Codecs.lean")
	if !writeIfChanged(dst, b.String()) {
		fmt.Printf("codecgen: %d codecs, %s unchanged\n", len(cs), dst)
		return
	}
	fmt.Printf("codecgen: %d codecs, wrote %s\n", len(cs), dst)
}
