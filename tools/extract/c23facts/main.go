// c23facts: tie "T" for property C23 (outgoing messages fit the size limit).
//
// Reads src/daemon/messages.go (+ gnet framing constants, cipher.SHA256) from the CURRENT tree and
// writes lean/Sky/Gen/C23Facts.lean:
//
//   - the item caps of the five New*Message constructors and the `maxlen` tags of the five slices,
//   - for each truncate* function: the number of framing bytes it reserves (the K of
//     `if maxMsgLength < K { panic }; maxMsgLength -= K`), AFTER checking that the whole function body
//     is an instance of the loop template / hash template below (logging removed, logger.Panic = panic),
//   - `truncateSHA256SliceLen`: a statement-by-statement translation of truncateSHA256Slice into the
//     length of the returned prefix,
//   - gnet's framing constants and whether sendMessage's limit check counts the length prefix.
//
// Any shape outside what is described here is a hard error (exit 2, message names the construct):
// the property is then "no longer shown to hold", never silently defaulted.
//
// usage: c23facts -repo /repo -out /verif/lean
package main

import (
	"bytes"
	"flag"
	"fmt"
	"go/ast"
	"go/parser"
	"go/printer"
	"go/token"
	"os"
	"path/filepath"
	"regexp"
	"strconv"
	"strings"
)

func die(f string, a ...interface{}) {
	fmt.Fprintf(os.Stderr, "c23facts: "+f+"\n", a...)
	os.Exit(2)
}

type kind struct {
	Name   string // Lean suffix
	Type   string // message struct
	Field  string // slice field
	Ctor   string
	Trunc  string
	SizeFn string // per-item size function ("" for the hash variants)
	Hash   bool
}

var kinds = []kind{
	{"GiveBlocks", "GiveBlocksMessage", "Blocks", "NewGiveBlocksMessage", "truncateGiveBlocksMessage", "encodeSizeSignedBlock", false},
	{"GiveTxns", "GiveTxnsMessage", "Transactions", "NewGiveTxnsMessage", "truncateGiveTxnsMessage", "encodeSizeTransaction", false},
	{"GivePeers", "GivePeersMessage", "Peers", "NewGivePeersMessage", "truncateGivePeersMessage", "encodeSizeIPAddr", false},
	{"AnnounceTxns", "AnnounceTxnsMessage", "Transactions", "NewAnnounceTxnsMessage", "truncateAnnounceTxnsHashes", "", true},
	{"GetTxns", "GetTxnsMessage", "Transactions", "NewGetTxnsMessage", "truncateGetTxnsHashes", "", true},
}

const loopTemplate = `package p
func TRUNC(m *T, maxMsgLength uint64) {
	if maxMsgLength < K {
		panic()
	}
	maxMsgLength -= K
	n := m.EncodeSize()
	if n <= maxMsgLength {
		return
	}
	var mm T
	size := mm.EncodeSize()
	index := -1
	for i, V := range m.F {
		x := SZ(&V)
		if size+x > maxMsgLength {
			break
		}
		size += x
		index = i
	}
	m.F = m.F[:index+1]
}
`

const hashTemplate = `package p
func TRUNC(m *T, maxMsgLength uint64) []cipher.SHA256 {
	if maxMsgLength < K {
		panic()
	}
	maxMsgLength -= K
	n := m.EncodeSize()
	if n <= maxMsgLength {
		return m.F
	}
	var mm T
	size := mm.EncodeSize()
	if maxMsgLength < size {
		panic()
	}
	maxMsgLength -= size
	hashes := truncateSHA256Slice(m.F, maxMsgLength)
	return hashes
}
`

const ctorTemplate = `package p
func CTOR(P []E, maxMsgLength uint64) *T {
	if len(P) > N {
		P = P[:N]
	}
	m := &T{
		F: P,
	}
	TRUNC(m, maxMsgLength)
	return m
}
`

const ctorHashTemplate = `package p
func CTOR(P []E, maxMsgLength uint64) *T {
	if len(P) > N {
		P = P[:N]
	}
	m := &T{
		F: P,
	}
	hashes := TRUNC(m, maxMsgLength)
	m.F = hashes
	return m
}
`

const sliceTemplate = `package p
func truncateSHA256Slice(hashes []cipher.SHA256, maxLength uint64) []cipher.SHA256 {
	if len(hashes) == 0 {
		return hashes
	}
	size := len(hashes[0])
	n := maxLength / uint64(size)
	if n > uint64(len(hashes)) {
		return hashes
	}
	return hashes[:n]
}
`

// isLoggerCall reports a call chain rooted at the identifier `logger`; final method name returned
func loggerCall(e ast.Expr) (bool, string) {
	c, ok := e.(*ast.CallExpr)
	if !ok {
		return false, ""
	}
	s, ok := c.Fun.(*ast.SelectorExpr)
	if !ok {
		return false, ""
	}
	last := s.Sel.Name
	x := s.X
	for {
		switch y := x.(type) {
		case *ast.Ident:
			return y.Name == "logger", last
		case *ast.CallExpr:
			ss, ok := y.Fun.(*ast.SelectorExpr)
			if !ok {
				return false, ""
			}
			x = ss.X
		case *ast.SelectorExpr:
			x = y.X
		default:
			return false, ""
		}
	}
}

// strip removes logging statements; logger.Panic*(...) becomes panic()
func strip(list []ast.Stmt) []ast.Stmt {
	var out []ast.Stmt
	for _, s := range list {
		switch x := s.(type) {
		case *ast.ExprStmt:
			if ok, last := loggerCall(x.X); ok {
				if strings.HasPrefix(last, "Panic") {
					out = append(out, &ast.ExprStmt{X: &ast.CallExpr{Fun: ast.NewIdent("panic")}})
				}
				continue
			}
			out = append(out, s)
		case *ast.IfStmt:
			x.Body.List = strip(x.Body.List)
			if x.Else != nil {
				if b, ok := x.Else.(*ast.BlockStmt); ok {
					b.List = strip(b.List)
				}
			}
			if len(x.Body.List) == 0 && x.Else == nil && x.Init == nil {
				continue // an `if` that only logged
			}
			out = append(out, x)
		case *ast.RangeStmt:
			x.Body.List = strip(x.Body.List)
			out = append(out, x)
		case *ast.ForStmt:
			x.Body.List = strip(x.Body.List)
			out = append(out, x)
		case *ast.BlockStmt:
			x.List = strip(x.List)
			out = append(out, x)
		default:
			out = append(out, s)
		}
	}
	return out
}

func printFunc(fset *token.FileSet, fd *ast.FuncDecl) string {
	fd.Doc = nil
	var buf bytes.Buffer
	if err := printer.Fprint(&buf, fset, fd); err != nil {
		die("print: %v", err)
	}
	// the printer keeps blank lines between statements; drop them
	var lines []string
	for _, l := range strings.Split(buf.String(), "\n") {
		if strings.TrimSpace(l) != "" {
			lines = append(lines, l)
		}
	}
	return strings.Join(lines, "\n")
}

func parseOne(src string) (*token.FileSet, *ast.FuncDecl) {
	fset := token.NewFileSet()
	f, err := parser.ParseFile(fset, "template.go", src, 0)
	if err != nil {
		die("template does not parse: %v", err)
	}
	for _, d := range f.Decls {
		if fd, ok := d.(*ast.FuncDecl); ok {
			return fset, fd
		}
	}
	die("template has no function")
	return nil, nil
}

func instantiate(tpl string, repl map[string]string) string {
	// placeholders are whole identifiers
	for k, v := range repl {
		tpl = regexp.MustCompile(`\b`+k+`\b`).ReplaceAllString(tpl, v)
	}
	fset, fd := parseOne(tpl)
	return printFunc(fset, fd)
}

func findFunc(f *ast.File, name string) *ast.FuncDecl {
	for _, d := range f.Decls {
		if fd, ok := d.(*ast.FuncDecl); ok && fd.Recv == nil && fd.Name.Name == name {
			return fd
		}
	}
	die("function %s not found in messages.go", name)
	return nil
}

func intLit(e ast.Expr, what string) int {
	b, ok := e.(*ast.BasicLit)
	if !ok || b.Kind != token.INT {
		die("%s: expected an integer literal", what)
	}
	v, err := strconv.Atoi(b.Value)
	if err != nil {
		die("%s: %v", what, err)
	}
	return v
}

// frameOf extracts K from `if maxMsgLength < K {…}` (first statement) and checks `maxMsgLength -= K` follows
func frameOf(fd *ast.FuncDecl) int {
	if len(fd.Body.List) < 2 {
		die("%s: body too short", fd.Name.Name)
	}
	ifs, ok := fd.Body.List[0].(*ast.IfStmt)
	if !ok {
		die("%s: first statement is not the `maxMsgLength < K` guard", fd.Name.Name)
	}
	be, ok := ifs.Cond.(*ast.BinaryExpr)
	if !ok || be.Op != token.LSS {
		die("%s: guard is not `maxMsgLength < K`", fd.Name.Name)
	}
	k := intLit(be.Y, fd.Name.Name+" guard")
	as, ok := fd.Body.List[1].(*ast.AssignStmt)
	if !ok || as.Tok != token.SUB_ASSIGN || len(as.Rhs) != 1 {
		die("%s: second statement is not `maxMsgLength -= K`", fd.Name.Name)
	}
	if k2 := intLit(as.Rhs[0], fd.Name.Name+" subtraction"); k2 != k {
		die("%s: guard constant %d differs from subtracted constant %d", fd.Name.Name, k, k2)
	}
	return k
}

func capOf(fd *ast.FuncDecl) (int, string, string) {
	if len(fd.Body.List) < 1 || len(fd.Type.Params.List) < 1 {
		die("%s: unexpected shape", fd.Name.Name)
	}
	p := fd.Type.Params.List[0]
	pname := p.Names[0].Name
	at, ok := p.Type.(*ast.ArrayType)
	if !ok {
		die("%s: first parameter is not a slice", fd.Name.Name)
	}
	var eb bytes.Buffer
	printer.Fprint(&eb, token.NewFileSet(), at.Elt) //nolint:errcheck
	ifs, ok := fd.Body.List[0].(*ast.IfStmt)
	if !ok {
		die("%s: first statement is not the cap", fd.Name.Name)
	}
	be, ok := ifs.Cond.(*ast.BinaryExpr)
	if !ok || be.Op != token.GTR {
		die("%s: cap condition is not `len(x) > N`", fd.Name.Name)
	}
	return intLit(be.Y, fd.Name.Name+" cap"), pname, eb.String()
}

func maxlenOf(f *ast.File, typ, field string) int {
	for _, d := range f.Decls {
		gd, ok := d.(*ast.GenDecl)
		if !ok {
			continue
		}
		for _, s := range gd.Specs {
			ts, ok := s.(*ast.TypeSpec)
			if !ok || ts.Name.Name != typ {
				continue
			}
			st, ok := ts.Type.(*ast.StructType)
			if !ok {
				die("%s is not a struct", typ)
			}
			for _, fl := range st.Fields.List {
				for _, n := range fl.Names {
					if n.Name == field {
						if fl.Tag == nil {
							die("%s.%s has no tag", typ, field)
						}
						m := regexp.MustCompile(`maxlen=(\d+)`).FindStringSubmatch(fl.Tag.Value)
						if m == nil {
							die("%s.%s has no maxlen tag", typ, field)
						}
						v, _ := strconv.Atoi(m[1])
						return v
					}
				}
			}
		}
	}
	die("struct %s.%s not found", typ, field)
	return 0
}

func constOf(path, name string) int {
	fset := token.NewFileSet()
	f, err := parser.ParseFile(fset, path, nil, 0)
	if err != nil {
		die("%v", err)
	}
	for _, d := range f.Decls {
		gd, ok := d.(*ast.GenDecl)
		if !ok || gd.Tok != token.CONST {
			continue
		}
		for _, s := range gd.Specs {
			vs := s.(*ast.ValueSpec)
			for i, n := range vs.Names {
				if n.Name == name && i < len(vs.Values) {
					return intLit(vs.Values[i], name)
				}
			}
		}
	}
	die("constant %s not found in %s", name, path)
	return 0
}

func main() {
	repo := flag.String("repo", "/repo", "repository root")
	out := flag.String("out", "/verif/lean", "lean root")
	flag.Parse()

	fset := token.NewFileSet()
	path := filepath.Join(*repo, "src/daemon/messages.go")
	f, err := parser.ParseFile(fset, path, nil, 0)
	if err != nil {
		die("%v", err)
	}

	var sb strings.Builder
	sb.WriteString("/- GENERATED by tools/extract/c23facts from src/daemon/messages.go, src/daemon/gnet/{message,pool,dispatcher}.go,\n")
	sb.WriteString("   src/cipher/hash.go of the current tree.  Do not edit. -/\n")
	sb.WriteString("import Sky.Prim.Res\nnamespace Sky.Gen.C23Facts\nopen Sky\n\n")

	for _, k := range kinds {
		// constructor
		ctor := findFunc(f, k.Ctor)
		n, pname, elt := capOf(ctor)
		if k.Name != "GivePeers" {
			tpl := ctorTemplate
			if k.Hash {
				tpl = ctorHashTemplate
			}
			want := instantiate(tpl, map[string]string{"CTOR": k.Ctor, "P": pname, "E": elt, "T": k.Type, "F": k.Field,
				"N": strconv.Itoa(n), "TRUNC": k.Trunc})
			ctor.Body.List = strip(ctor.Body.List)
			if got := printFunc(fset, ctor); got != want {
				die("%s is not an instance of the constructor template.\n--- got\n%s\n--- want\n%s", k.Ctor, got, want)
			}
		} else {
			// peers: cap first, conversion loop, then the truncate call as the last statement before return
			ctor.Body.List = strip(ctor.Body.List)
			l := ctor.Body.List
			if len(l) < 3 {
				die("%s: unexpected shape", k.Ctor)
			}
			call, ok := l[len(l)-2].(*ast.ExprStmt)
			if !ok {
				die("%s: statement before return is not the truncate call", k.Ctor)
			}
			var cb bytes.Buffer
			printer.Fprint(&cb, fset, call.X) //nolint:errcheck
			if cb.String() != k.Trunc+"(m, maxMsgLength)" {
				die("%s: statement before return is %q, expected the truncate call", k.Ctor, cb.String())
			}
		}
		ml := maxlenOf(f, k.Type, k.Field)

		// truncate function
		tr := findFunc(f, k.Trunc)
		frame := frameOf(tr)
		tr.Body.List = strip(tr.Body.List)
		repl := map[string]string{"TRUNC": k.Trunc, "T": k.Type, "F": k.Field, "K": strconv.Itoa(frame)}
		tpl := hashTemplate
		if !k.Hash {
			tpl = loopTemplate
			repl["SZ"] = k.SizeFn
			// loop variable name
			v := "V"
			for _, s := range tr.Body.List {
				if rs, ok := s.(*ast.RangeStmt); ok {
					if id, ok := rs.Value.(*ast.Ident); ok {
						v = id.Name
					}
				}
			}
			repl["V"] = v
		}
		want := instantiate(tpl, repl)
		if got := printFunc(fset, tr); got != want {
			die("%s is not an instance of the truncation template.\n--- got\n%s\n--- want\n%s", k.Trunc, got, want)
		}
		fmt.Fprintf(&sb, "/-- `%s`: `if len(%s) > %d { %s = %s[:%d] }` -/\ndef cap%s : Nat := %d\n", k.Ctor, pname, n, pname, pname, n, k.Name, n)
		fmt.Fprintf(&sb, "/-- `%s.%s` tag `maxlen=%d` -/\ndef maxlen%s : Nat := %d\n", k.Type, k.Field, ml, k.Name, ml)
		fmt.Fprintf(&sb, "/-- `%s` (instance of the %s template): `if maxMsgLength < %d { panic }; maxMsgLength -= %d` -/\ndef frame%s : Nat := %d\n\n",
			k.Trunc, map[bool]string{true: "hash", false: "loop"}[k.Hash], frame, frame, k.Name, frame)
	}

	// truncateSHA256Slice: must be exactly the known shape; then the translation below is its meaning
	ts := findFunc(f, "truncateSHA256Slice")
	ts.Body.List = strip(ts.Body.List)
	_, wantFd := parseOne(sliceTemplate)
	wfs, _ := parseOne(sliceTemplate)
	if got, want := printFunc(fset, ts), printFunc(wfs, wantFd); got != want {
		die("truncateSHA256Slice left the translatable shape.\n--- got\n%s\n--- want\n%s", got, want)
	}
	sb.WriteString(`/-- translation of truncateSHA256Slice(hashes, maxLength): LENGTH of the returned prefix, as a function of
len(hashes), len(hashes[0]) and maxLength:
    if len(hashes) == 0 { return hashes }
    size := len(hashes[0]); n := maxLength / uint64(size)
    if n > uint64(len(hashes)) { return hashes }
    return hashes[:n]
Go's run-time failures (index, division by zero, slice bound) are the panic outcome. -/
def truncateSHA256SliceLen (len elem maxLength : Nat) : Res Nat :=
  if len = 0 then .ok len else
  if ¬ (0 < len) then .panic "index" else
  let size := elem
  if size = 0 then .panic "div0" else
  let n := maxLength / size
  if n > len then .ok len else
  if n ≤ len then .ok n else .panic "slice"

`)
	// cipher.SHA256 size
	{
		hf, err := parser.ParseFile(token.NewFileSet(), filepath.Join(*repo, "src/cipher/hash.go"), nil, 0)
		if err != nil {
			die("%v", err)
		}
		size := -1
		for _, d := range hf.Decls {
			if gd, ok := d.(*ast.GenDecl); ok {
				for _, s := range gd.Specs {
					if t, ok := s.(*ast.TypeSpec); ok && t.Name.Name == "SHA256" {
						if at, ok := t.Type.(*ast.ArrayType); ok && at.Len != nil {
							size = intLit(at.Len, "SHA256 length")
						}
					}
				}
			}
		}
		if size < 0 {
			die("type SHA256 [N]byte not found")
		}
		fmt.Fprintf(&sb, "/-- `type SHA256 [%d]byte` -/\ndef sha256Size : Nat := %d\n", size, size)
	}
	// gnet framing
	lp := constOf(filepath.Join(*repo, "src/daemon/gnet/pool.go"), "messageLengthPrefixSize")
	idl := constOf(filepath.Join(*repo, "src/daemon/gnet/message.go"), "messagePrefixLength")
	fmt.Fprintf(&sb, "/-- gnet: bytes of the length prefix written before every message -/\ndef lengthPrefixSize : Nat := %d\n", lp)
	fmt.Fprintf(&sb, "/-- gnet: bytes of the message id -/\ndef msgIDSize : Nat := %d\n", idl)
	// sendMessage's check
	{
		df, err := parser.ParseFile(token.NewFileSet(), filepath.Join(*repo, "src/daemon/gnet/dispatcher.go"), nil, 0)
		if err != nil {
			die("%v", err)
		}
		sm := findFuncIn(df, "sendMessage")
		cond := ""
		for _, s := range sm.Body.List {
			if ifs, ok := s.(*ast.IfStmt); ok {
				var b bytes.Buffer
				printer.Fprint(&b, token.NewFileSet(), ifs.Cond) //nolint:errcheck
				if strings.Contains(b.String(), "maxMsgLength") {
					cond = b.String()
				}
			}
		}
		switch cond {
		case "len(m) > maxMsgLength":
			sb.WriteString("/-- gnet.sendMessage refuses when `len(m) > maxMsgLength`, m = length prefix ++ message id ++ body -/\ndef sendCountsLengthPrefix : Bool := true\n")
		case "len(m)-messageLengthPrefixSize > maxMsgLength":
			sb.WriteString("/-- gnet.sendMessage refuses when `len(m)-messageLengthPrefixSize > maxMsgLength` -/\ndef sendCountsLengthPrefix : Bool := false\n")
		default:
			die("sendMessage: unrecognised limit check %q", cond)
		}
	}
	sb.WriteString("\nend Sky.Gen.C23Facts\n")

	dst := filepath.Join(*out, "Sky/Gen/C23Facts.lean")
	if old, err := os.ReadFile(dst); err == nil && string(old) == sb.String() {
		fmt.Println("c23facts: unchanged")
		return
	}
	if err := os.MkdirAll(filepath.Dir(dst), 0o755); err != nil {
		die("%v", err)
	}
	if err := os.WriteFile(dst, []byte(sb.String()), 0o644); err != nil {
		die("%v", err)
	}
	fmt.Println("c23facts: wrote", dst)
}

func findFuncIn(f *ast.File, name string) *ast.FuncDecl {
	for _, d := range f.Decls {
		if fd, ok := d.(*ast.FuncDecl); ok && fd.Recv == nil && fd.Name.Name == name {
			return fd
		}
	}
	die("function %s not found", name)
	return nil
}
