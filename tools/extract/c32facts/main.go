// c32facts: static tie for property C32 (the connection pool's strand protocol).
//
// Reads src/daemon/gnet/pool.go of the CURRENT tree and writes lean/Sky/Gen/C32Facts.lean:
//
//	poolMaps             the fields of ConnectionPool that are maps (the state the strand protects)
//	directAccessors      functions/methods of package gnet (pool.go) that mention one of those fields
//	                     outside a function literal passed to pool.strand(...)
//	unstrandedEntries    the direct accessors that can be reached WITHOUT going through pool.strand:
//	                     exported ones, and unexported ones with a call site that is neither inside a
//	                     strand closure nor inside another direct accessor nor after `<-pool.strandDone`
//	                     in Shutdown
//	shutdownOrder        whether Shutdown closes quit, then receives from strandDone, and only then calls
//	                     disconnectAll / reads the maps
//	strandShape          whether strand.Strand and processStrand have the select shapes the model assumes
//
// The mutual-exclusion theorem of the model is about the protocol; `unstrandedEntries = []` is the code-level
// fact that every access to the maps takes part in that protocol.  Anything this tool cannot classify is
// a hard error (exit 2).
//
// usage: c32facts -repo /repo -out /verif/lean
package main

import (
	"bytes"
	"flag"
	"fmt"
	"go/ast"
	"go/parser"
	"go/printer"
	"go/token"
	"os"
	"path/filepath"
	"sort"
	"strconv"
	"strings"
)

func die(f string, a ...interface{}) {
	fmt.Fprintf(os.Stderr, "c32facts: "+f+"\n", a...)
	os.Exit(2)
}

func src(fset *token.FileSet, n ast.Node) string {
	var b bytes.Buffer
	printer.Fprint(&b, fset, n) //nolint:errcheck
	return b.String()
}

// isStrandCall: pool.strand("name", func() error {...})
func isStrandCall(c *ast.CallExpr) bool {
	s, ok := c.Fun.(*ast.SelectorExpr)
	if !ok || s.Sel.Name != "strand" {
		return false
	}
	id, ok := s.X.(*ast.Ident)
	return ok && id.Name == "pool"
}

type fn struct {
	name     string
	exported bool
	decl     *ast.FuncDecl
	direct   bool            // touches a pool map outside strand closures
	calls    map[string]bool // pool.X(...) calls made OUTSIDE strand closures (and outside the post-strandDone part of Shutdown)
}

func main() {
	repo := flag.String("repo", "/repo", "repository root")
	out := flag.String("out", "/verif/lean", "lean root")
	flag.Parse()

	fset := token.NewFileSet()
	path := filepath.Join(*repo, "src/daemon/gnet/pool.go")
	f, err := parser.ParseFile(fset, path, nil, 0)
	if err != nil {
		die("%v", err)
	}

	// 1. map-typed fields of ConnectionPool
	maps := map[string]bool{}
	for _, d := range f.Decls {
		gd, ok := d.(*ast.GenDecl)
		if !ok {
			continue
		}
		for _, s := range gd.Specs {
			ts, ok := s.(*ast.TypeSpec)
			if !ok || ts.Name.Name != "ConnectionPool" {
				continue
			}
			st, ok := ts.Type.(*ast.StructType)
			if !ok {
				die("ConnectionPool is not a struct")
			}
			for _, fl := range st.Fields.List {
				if _, ok := fl.Type.(*ast.MapType); ok {
					for _, n := range fl.Names {
						maps[n.Name] = true
					}
				}
			}
		}
	}
	if len(maps) == 0 {
		die("no map fields found in ConnectionPool")
	}

	// 2. per method: direct accesses and unstranded calls
	fns := map[string]*fn{}
	for _, d := range f.Decls {
		fd, ok := d.(*ast.FuncDecl)
		if !ok || fd.Body == nil || fd.Recv == nil || len(fd.Recv.List) != 1 {
			continue
		}
		// receiver must be (pool *ConnectionPool)
		rt := src(fset, fd.Recv.List[0].Type)
		if rt != "*ConnectionPool" {
			continue
		}
		if len(fd.Recv.List[0].Names) != 1 || fd.Recv.List[0].Names[0].Name != "pool" {
			die("method %s: receiver is not named `pool`", fd.Name.Name)
		}
		x := &fn{name: fd.Name.Name, exported: ast.IsExported(fd.Name.Name), decl: fd, calls: map[string]bool{}}
		fns[x.name] = x

		// Shutdown: everything after the statement `<-pool.strandDone` is the post-strand region
		postStrand := token.NoPos
		if x.name == "Shutdown" {
			for _, s := range fd.Body.List {
				if es, ok := s.(*ast.ExprStmt); ok {
					if ue, ok := es.X.(*ast.UnaryExpr); ok && ue.Op == token.ARROW && src(fset, ue.X) == "pool.strandDone" {
						postStrand = s.End()
					}
				}
			}
		}

		var walk func(n ast.Node, inStrand bool)
		walk = func(n ast.Node, inStrand bool) {
			ast.Inspect(n, func(m ast.Node) bool {
				switch y := m.(type) {
				case *ast.CallExpr:
					if isStrandCall(y) {
						for _, a := range y.Args {
							if fl, ok := a.(*ast.FuncLit); ok {
								walk(fl.Body, true)
							} else {
								walk(a, inStrand)
							}
						}
						return false
					}
					if s, ok := y.Fun.(*ast.SelectorExpr); ok {
						if id, ok := s.X.(*ast.Ident); ok && id.Name == "pool" && !inStrand {
							if postStrand == token.NoPos || y.Pos() < postStrand {
								x.calls[s.Sel.Name] = true
							}
						}
					}
				case *ast.SelectorExpr:
					if id, ok := y.X.(*ast.Ident); ok && id.Name == "pool" && maps[y.Sel.Name] && !inStrand {
						if postStrand == token.NoPos || y.Pos() < postStrand {
							x.direct = true
						}
					}
				}
				return true
			})
		}
		walk(fd.Body, false)
	}

	// NewConnectionPool initialises the maps before the pool is shared: not a method, ignored by construction.

	// 3. classification
	var direct []string
	for n, x := range fns {
		if x.direct {
			direct = append(direct, n)
		}
	}
	sort.Strings(direct)
	isDirect := map[string]bool{}
	for _, n := range direct {
		isDirect[n] = true
	}
	// transitively: a function that calls a direct accessor outside a strand closure is itself "direct" for its callers
	changed := true
	for changed {
		changed = false
		for n, x := range fns {
			if isDirect[n] {
				continue
			}
			for c := range x.calls {
				if isDirect[c] {
					isDirect[n] = true
					changed = true
				}
			}
		}
	}
	// entries: direct (transitively) functions that are exported, or unexported with no caller at all inside pool.go
	// that is itself direct or stranded -- i.e. reachable from outside the protocol.  An unexported direct function is
	// fine when every call site is inside a strand closure or inside another direct function (which is judged itself).
	var entries []string
	for n := range isDirect {
		x := fns[n]
		if x.exported {
			entries = append(entries, n)
		}
	}
	sort.Strings(entries)
	var allDirect []string
	for n := range isDirect {
		allDirect = append(allDirect, n)
	}
	sort.Strings(allDirect)

	// 4. Shutdown order
	sd, ok := fns["Shutdown"]
	if !ok {
		die("Shutdown not found")
	}
	var order []string
	for _, s := range sd.decl.Body.List {
		t := src(fset, s)
		switch {
		case t == "close(pool.quit)":
			order = append(order, "closeQuit")
		case t == "<-pool.strandDone":
			order = append(order, "waitStrandDone")
		case t == "pool.disconnectAll()":
			order = append(order, "disconnectAll")
		case t == "<-pool.done":
			order = append(order, "waitDone")
		}
	}
	shutdownOK := strings.Join(order, ",") == "closeQuit,waitStrandDone,disconnectAll,waitDone"

	// 5. processStrand shape
	ps, ok := fns["processStrand"]
	if !ok {
		die("processStrand not found")
	}
	wantPS := `{
	defer close(pool.strandDone)
	for {
		select {
		case <-pool.quit:
			return
		case req := <-pool.reqC:
			if err := req.Func(); err != nil {
			}
		}
	}
}`
	stripLog(ps.decl.Body)
	gotPS := squeeze(src(fset, ps.decl.Body))
	processStrandOK := gotPS == squeeze(wantPS)

	// 6. strand.Strand shape: the two select loops
	sfset := token.NewFileSet()
	sf, err := parser.ParseFile(sfset, filepath.Join(*repo, "src/daemon/strand/strand.go"), nil, 0)
	if err != nil {
		die("%v", err)
	}
	strandOK := false
	for _, d := range sf.Decls {
		fd, ok := d.(*ast.FuncDecl)
		if !ok || fd.Name.Name != "Strand" {
			continue
		}
		// collect the case heads of every select statement in the function body (outside nested func literals)
		var heads []string
		var visit func(n ast.Node)
		visit = func(n ast.Node) {
			ast.Inspect(n, func(m ast.Node) bool {
				switch y := m.(type) {
				case *ast.FuncLit:
					return false
				case *ast.SelectStmt:
					var h []string
					for _, c := range y.Body.List {
						cc := c.(*ast.CommClause)
						if cc.Comm == nil {
							h = append(h, "default")
						} else {
							h = append(h, src(sfset, cc.Comm))
						}
					}
					heads = append(heads, strings.Join(h, " | "))
				}
				return true
			})
		}
		visit(fd.Body)
		want := []string{
			"<-quit | c <- req | <-time.After(logQueueRequestWaitThreshold)",
			"<-quit | <-done | <-time.After(logQueueRequestWaitThreshold)",
		}
		strandOK = strings.Join(heads, " ;; ") == strings.Join(want, " ;; ")
		if !strandOK {
			fmt.Fprintf(os.Stderr, "c32facts: strand.Strand select shapes: %q\n", heads)
		}
	}

	// 5. handleConnection's error channel: capacity, number of goroutines that send on it, and whether every
	// goroutine can send at most once (a send inside a loop must be followed directly by `return`)
	errCap, errProducers, errOnce, errRecvOnce := -1, 0, true, true
	if hc, ok := fns["handleConnection"]; ok {
		ast.Inspect(hc.decl.Body, func(n ast.Node) bool {
			as, ok := n.(*ast.AssignStmt)
			if !ok || len(as.Lhs) != 1 || len(as.Rhs) != 1 || src(fset, as.Lhs[0]) != "errC" {
				return true
			}
			ce, ok := as.Rhs[0].(*ast.CallExpr)
			if !ok || src(fset, ce.Fun) != "make" {
				return true
			}
			errCap = 0
			if len(ce.Args) == 2 {
				if bl, ok := ce.Args[1].(*ast.BasicLit); ok {
					if v, err := strconv.Atoi(bl.Value); err == nil {
						errCap = v
					} else {
						die("handleConnection: errC capacity %q is not a literal integer", bl.Value)
					}
				} else {
					die("handleConnection: errC capacity %q is not a literal integer", src(fset, ce.Args[1]))
				}
			}
			return true
		})
		if errCap < 0 {
			die("handleConnection: no `errC := make(chan …)` found")
		}
		isErrSend := func(st ast.Stmt) bool {
			ss, ok := st.(*ast.SendStmt)
			return ok && src(fset, ss.Chan) == "errC"
		}
		// sends outside `go func` literals (none expected), receives in loops
		var sendsIn func(n ast.Node, inLoop bool) int
		sendsIn = func(n ast.Node, inLoop bool) int {
			cnt := 0
			var walkBlock func(list []ast.Stmt, inLoop bool)
			var walk func(st ast.Stmt, inLoop bool)
			walkBlock = func(list []ast.Stmt, inLoop bool) {
				for i, st := range list {
					if isErrSend(st) {
						cnt++
						if inLoop {
							if i+1 >= len(list) {
								errOnce = false
							} else if _, ok := list[i+1].(*ast.ReturnStmt); !ok {
								errOnce = false
							}
						}
						continue
					}
					walk(st, inLoop)
				}
			}
			walk = func(st ast.Stmt, inLoop bool) {
				switch x := st.(type) {
				case *ast.BlockStmt:
					walkBlock(x.List, inLoop)
				case *ast.IfStmt:
					walkBlock(x.Body.List, inLoop)
					if x.Else != nil {
						walk(x.Else, inLoop)
					}
				case *ast.ForStmt:
					walkBlock(x.Body.List, true)
				case *ast.RangeStmt:
					walkBlock(x.Body.List, true)
				case *ast.SelectStmt:
					for _, c := range x.Body.List {
						walkBlock(c.(*ast.CommClause).Body, inLoop)
					}
				case *ast.SwitchStmt:
					for _, c := range x.Body.List {
						walkBlock(c.(*ast.CaseClause).Body, inLoop)
					}
				case *ast.DeferStmt, *ast.GoStmt:
					// nested goroutines / defers inside a producer are not expected to send
					ast.Inspect(st, func(m ast.Node) bool {
						if ss, ok := m.(*ast.SendStmt); ok && src(fset, ss.Chan) == "errC" {
							errOnce = false
						}
						return true
					})
				}
			}
			if b, ok := n.(*ast.BlockStmt); ok {
				walkBlock(b.List, inLoop)
			}
			return cnt
		}
		for _, st := range hc.decl.Body.List {
			if gs, ok := st.(*ast.GoStmt); ok {
				if fl, ok := gs.Call.Fun.(*ast.FuncLit); ok {
					n := sendsIn(fl.Body, false)
					if n > 0 {
						errProducers++
						// more than one send statement in one goroutine: only fine if they are on exclusive paths
						// ending in return; keep it simple and require exactly one
						if n != 1 {
							errOnce = false
						}
					}
				}
				continue
			}
			// any send to errC outside the goroutines is unexpected
			ast.Inspect(st, func(m ast.Node) bool {
				if _, ok := m.(*ast.FuncLit); ok {
					return false
				}
				if ss, ok := m.(*ast.SendStmt); ok && src(fset, ss.Chan) == "errC" {
					errOnce = false
				}
				return true
			})
			// receives from errC must not be inside a loop
			ast.Inspect(st, func(m ast.Node) bool {
				switch x := m.(type) {
				case *ast.ForStmt, *ast.RangeStmt:
					ast.Inspect(x, func(k ast.Node) bool {
						if ue, ok := k.(*ast.UnaryExpr); ok && ue.Op == token.ARROW && src(fset, ue.X) == "errC" {
							errRecvOnce = false
						}
						return true
					})
				}
				return true
			})
		}
	} else {
		die("method handleConnection not found")
	}

	var mapNames []string
	for n := range maps {
		mapNames = append(mapNames, n)
	}
	sort.Strings(mapNames)

	q := func(l []string) string {
		s := make([]string, len(l))
		for i, x := range l {
			s[i] = fmt.Sprintf("%q", x)
		}
		return "[" + strings.Join(s, ", ") + "]"
	}
	var sb strings.Builder
	sb.WriteString("/- GENERATED by tools/extract/c32facts from src/daemon/gnet/pool.go and src/daemon/strand/strand.go of the current tree.\n   Do not edit. -/\n")
	sb.WriteString("namespace Sky.Gen.C32Facts\n\n")
	fmt.Fprintf(&sb, "/-- map-typed fields of ConnectionPool: the state the strand protects -/\ndef poolMaps : List String := %s\n\n", q(mapNames))
	fmt.Fprintf(&sb, "/-- methods that touch a pool map (directly or by calling such a method) outside a `pool.strand` closure\n(for Shutdown: before `<-pool.strandDone`) -/\ndef directAccessors : List String := %s\n\n", q(allDirect))
	fmt.Fprintf(&sb, "/-- the direct accessors that are exported, i.e. callable from any goroutine without the strand -/\ndef unstrandedEntries : List String := %s\n\n", q(entries))
	fmt.Fprintf(&sb, "/-- Shutdown is `close(quit); <-strandDone; …; disconnectAll(); …; <-done` in this order -/\ndef shutdownOrderOK : Bool := %v\n\n", shutdownOK)
	fmt.Fprintf(&sb, "/-- processStrand is `defer close(strandDone); for { select { case <-quit: return; case req := <-reqC: req.Func() } }` -/\ndef processStrandOK : Bool := %v\n\n", processStrandOK)
	fmt.Fprintf(&sb, "/-- strand.Strand has exactly the two select loops `quit | send | timer` and `quit | done | timer` -/\ndef strandSelectsOK : Bool := %v\n\n", strandOK)
	fmt.Fprintf(&sb, "/-- handleConnection: capacity of the per-connection error channel `errC` -/\ndef errChanCap : Nat := %d\n\n", errCap)
	fmt.Fprintf(&sb, "/-- handleConnection: goroutines that report on `errC` (readLoop, sendLoop, the receiveMessage loop) -/\ndef errProducers : Nat := %d\n\n", errProducers)
	fmt.Fprintf(&sb, "/-- each of them sends at most once (a send inside a loop is followed directly by `return`), nothing else sends,\nand handleConnection itself receives at most once before `wg.Wait()` -/\ndef errSendOnce : Bool := %v\n\n", errOnce && errRecvOnce)
	sb.WriteString("end Sky.Gen.C32Facts\n")

	dst := filepath.Join(*out, "Sky/Gen/C32Facts.lean")
	if old, err := os.ReadFile(dst); err == nil && string(old) == sb.String() {
		fmt.Println("c32facts: unchanged")
		return
	}
	if err := os.MkdirAll(filepath.Dir(dst), 0o755); err != nil {
		die("%v", err)
	}
	if err := os.WriteFile(dst, []byte(sb.String()), 0o644); err != nil {
		die("%v", err)
	}
	fmt.Println("c32facts: wrote", dst)
}

func squeeze(s string) string { return strings.Join(strings.Fields(s), " ") }

// stripLog removes statements that are calls on `logger` (any depth) from a block, recursively
func stripLog(b *ast.BlockStmt) {
	var out []ast.Stmt
	for _, s := range b.List {
		switch x := s.(type) {
		case *ast.ExprStmt:
			if strings.HasPrefix(exprRoot(x.X), "logger") {
				continue
			}
		case *ast.DeferStmt:
			if strings.HasPrefix(exprRoot(x.Call), "logger") {
				continue
			}
		case *ast.IfStmt:
			stripLog(x.Body)
		case *ast.ForStmt:
			stripLog(x.Body)
		case *ast.SelectStmt:
			for _, c := range x.Body.List {
				cc := c.(*ast.CommClause)
				bb := &ast.BlockStmt{List: cc.Body}
				stripLog(bb)
				cc.Body = bb.List
			}
		}
		out = append(out, s)
	}
	b.List = out
}

func exprRoot(e ast.Expr) string {
	for {
		switch y := e.(type) {
		case *ast.CallExpr:
			e = y.Fun
		case *ast.SelectorExpr:
			e = y.X
		case *ast.Ident:
			return y.Name
		default:
			return ""
		}
	}
}
