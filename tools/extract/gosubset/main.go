// gosubset: translate a loop-free (plus counted-loop) integer subset of Go functions into Lean 4
// definitions over Nat/Int with explicit wrap-around, returning Sky.Res.
//
// Tie "T" of DESIGN.md: the emitted Lean is regenerated from /repo's current sources on every run;
// the theorems in Sky/Props are then re-checked against what the code says now.
//
// The accepted source shapes are deliberately narrow.  Anything outside the subset is a hard error
// (exit 2, message names the construct) - never a silent default.
//
// usage: gosubset -repo /repo -units units.json -out /verif/lean
package main

import (
	"crypto/sha256"
	"encoding/json"
	"flag"
	"fmt"
	"go/ast"
	"go/parser"
	"go/printer"
	"go/token"
	"os"
	"path/filepath"
	"sort"
	"strconv"
	"strings"
)

type Unit struct {
	Module  string   `json:"module"`  // Lean module, e.g. Sky.Gen.Mathutil
	File    string   `json:"file"`    // path relative to repo
	Pkg     string   `json:"pkg"`     // Go package name as used by importers
	Funcs   []string `json:"funcs"`   // "Name" or "Recv.Name"
	Imports []string `json:"imports"` // other Lean modules to import
	// Fields: extra struct field types "Type.field" -> go type, for structs declared elsewhere
	Fields map[string]string `json:"fields"`
	// Consts: extra constants "name" or "pkg.name" -> decimal value
	Consts map[string]string `json:"consts"`
}

type FuncSig struct {
	LeanName string
	Params   []string // lean param names, in order
	PTypes   []string
	Results  []string // go result types (without error)
	HasErr   bool
	// for methods: selector paths that became parameters
	Recv      string
	RecvPaths []string
}

type Meta struct {
	Module string `json:"module"`
	File   string `json:"file"`
	Func   string `json:"func"`
	Lean   string `json:"lean"`
	SHA    string `json:"src_sha256"`
	Params string `json:"params"`
}

var (
	funcTable = map[string]*FuncSig{} // "pkg.Name" / "pkg.Recv.Name"
	metas     []Meta
)

var intTypes = map[string]bool{"uint64": true, "uint32": true, "uint16": true, "uint8": true, "byte": true,
	"int": true, "int64": true, "int32": true, "uint": true}

func isUnsigned(t string) bool {
	switch t {
	case "uint64", "uint32", "uint16", "uint8", "byte", "uint":
		return true
	}
	return false
}
func width(t string) string {
	switch t {
	case "uint64", "uint", "int64", "int":
		return "64"
	case "uint32", "int32":
		return "32"
	case "uint16":
		return "16"
	case "uint8", "byte":
		return "8"
	}
	return "?"
}

type fail struct{ msg string }

func die(n ast.Node, fset *token.FileSet, format string, a ...interface{}) {
	pos := ""
	if n != nil && fset != nil {
		pos = fset.Position(n.Pos()).String() + ": "
	}
	panic(fail{pos + fmt.Sprintf(format, a...)})
}

type tr struct {
	fset     *token.FileSet
	unit     *Unit
	file     *ast.File
	structs  map[string]map[string]string // struct -> field -> type
	consts   map[string]string            // const name -> lean literal
	ctypes   map[string]string            // const name -> go type ("" untyped)
	fn       *ast.FuncDecl
	env      map[string]string // var -> go type
	named    []string          // named results
	results  []string          // result go types excluding error
	hasErr   bool
	errCtr   int
	recv     string
	paths    map[string]string // "uo.Head.Time" -> go type (selector params)
	ifCount  int
	hoistCtr int
}

var knownConsts = map[string]string{
	"math.MaxUint32": "4294967295", "math.MaxUint64": "18446744073709551615",
	"math.MaxInt64": "9223372036854775807", "math.MaxInt32": "2147483647",
	"math.MaxUint16": "65535", "math.MaxUint8": "255", "math.MaxInt": "9223372036854775807",
}

func (t *tr) typeStr(e ast.Expr) string {
	switch x := e.(type) {
	case *ast.Ident:
		return x.Name
	case *ast.StarExpr:
		return t.typeStr(x.X)
	case *ast.SelectorExpr:
		return t.typeStr(x.X) + "." + x.Sel.Name
	case *ast.ArrayType:
		if x.Len == nil {
			return "[]" + t.typeStr(x.Elt)
		}
		return "[N]" + t.typeStr(x.Elt)
	}
	die(e, t.fset, "unsupported type expression %T", e)
	return ""
}

func litValue(s string) (string, bool) {
	s = strings.ReplaceAll(s, "_", "")
	if strings.ContainsAny(s, "eE") && !strings.HasPrefix(s, "0x") {
		f, err := strconv.ParseFloat(s, 64)
		if err != nil || f != float64(uint64(f)) {
			return "", false
		}
		return strconv.FormatUint(uint64(f), 10), true
	}
	if v, err := strconv.ParseUint(s, 0, 64); err == nil {
		return strconv.FormatUint(v, 10), true
	}
	return "", false
}

// selector path "a.b.c" if e is a pure selector chain rooted at an identifier
func selPath(e ast.Expr) (string, bool) {
	switch x := e.(type) {
	case *ast.Ident:
		return x.Name, true
	case *ast.SelectorExpr:
		if p, ok := selPath(x.X); ok {
			return p + "." + x.Sel.Name, true
		}
	}
	return "", false
}

// Go identifiers that are Lean keywords get a trailing underscore (e.g. a result named `end`).
var leanKeywords = map[string]bool{"end": true, "at": true, "from": true, "have": true, "show": true, "fun": true,
	"then": true, "else": true, "do": true, "let": true, "in": true, "with": true, "match": true, "open": true,
	"def": true, "theorem": true, "where": true, "by": true, "instance": true, "structure": true, "namespace": true,
	"section": true, "variable": true, "universe": true, "mutual": true, "deriving": true, "using": true, "this": true}

func leanIdent(p string) string {
	p = strings.ReplaceAll(p, ".", "_")
	if leanKeywords[p] {
		return p + "_"
	}
	return p
}

// typeOf returns the Go type of an expression ("" = untyped constant)
func (t *tr) typeOf(e ast.Expr) string {
	switch x := e.(type) {
	case *ast.BasicLit:
		return ""
	case *ast.ParenExpr:
		return t.typeOf(x.X)
	case *ast.Ident:
		if x.Name == "true" || x.Name == "false" {
			return "bool"
		}
		if ty, ok := t.env[x.Name]; ok {
			return ty
		}
		if ty, ok := t.ctypes[x.Name]; ok {
			return ty
		}
		die(e, t.fset, "unknown identifier %s", x.Name)
	case *ast.SelectorExpr:
		if p, ok := selPath(x); ok {
			if _, ok := knownConsts[p]; ok {
				return ""
			}
			if ty, ok := t.ctypes[p]; ok {
				return ty
			}
			if ty, ok := t.paths[p]; ok {
				return ty
			}
			return t.fieldType(x)
		}
	case *ast.UnaryExpr:
		if x.Op == token.NOT {
			return "bool"
		}
		return t.typeOf(x.X)
	case *ast.BinaryExpr:
		switch x.Op {
		case token.EQL, token.NEQ, token.LSS, token.LEQ, token.GTR, token.GEQ, token.LAND, token.LOR:
			return "bool"
		case token.SHL, token.SHR:
			return t.typeOf(x.X)
		}
		l, r := t.typeOf(x.X), t.typeOf(x.Y)
		if l == "" {
			return r
		}
		if r != "" && l != r {
			die(e, t.fset, "mismatched operand types %s and %s", l, r)
		}
		return l
	case *ast.CallExpr:
		if id, ok := x.Fun.(*ast.Ident); ok {
			if intTypes[id.Name] {
				return id.Name
			}
			if id.Name == "len" {
				return "int"
			}
		}
		if sig := t.lookupFunc(x); sig != nil {
			if len(sig.Results) == 1 && !sig.HasErr {
				return sig.Results[0]
			}
			die(e, t.fset, "call to %s used as a value must have one non-error result", sig.LeanName)
		}
	}
	die(e, t.fset, "cannot type expression %T", e)
	return ""
}

func (t *tr) fieldType(x *ast.SelectorExpr) string {
	base := t.typeOf(x.X)
	base = strings.TrimPrefix(base, "*")
	if fs, ok := t.structs[base]; ok {
		if ft, ok := fs[x.Sel.Name]; ok {
			return ft
		}
	}
	if ft, ok := t.unit.Fields[base+"."+x.Sel.Name]; ok {
		return ft
	}
	die(x, t.fset, "unknown field %s.%s", base, x.Sel.Name)
	return ""
}

func (t *tr) lookupFunc(c *ast.CallExpr) *FuncSig {
	switch f := c.Fun.(type) {
	case *ast.Ident:
		return funcTable[t.unit.Pkg+"."+f.Name]
	case *ast.SelectorExpr:
		if p, ok := f.X.(*ast.Ident); ok {
			if s := funcTable[p.Name+"."+f.Sel.Name]; s != nil {
				return s
			}
			// method call on a variable: type.Method
			if ty, ok := t.env[p.Name]; ok {
				ty = strings.TrimPrefix(ty, "*")
				return funcTable[t.unit.Pkg+"."+ty+"."+f.Sel.Name]
			}
		}
	}
	return nil
}

func isLogCall(e ast.Expr) bool {
	c, ok := e.(*ast.CallExpr)
	if !ok {
		return false
	}
	if s, ok := c.Fun.(*ast.SelectorExpr); ok {
		if p, ok := s.X.(*ast.Ident); ok {
			return p.Name == "log" || p.Name == "logger"
		}
		// logger.WithError(..).Error(..) etc.
		if cc, ok := s.X.(*ast.CallExpr); ok {
			return isLogCall(cc)
		}
	}
	return false
}

// expr translates a pure expression with expected type `want` for untyped constants.
func (t *tr) expr(e ast.Expr, want string) string {
	switch x := e.(type) {
	case *ast.ParenExpr:
		return t.expr(x.X, want)
	case *ast.BasicLit:
		if v, ok := litValue(x.Value); ok {
			return v
		}
		die(e, t.fset, "unsupported literal %s", x.Value)
	case *ast.Ident:
		if x.Name == "true" {
			return "True"
		}
		if x.Name == "false" {
			return "False"
		}
		if _, ok := t.env[x.Name]; ok {
			return leanIdent(x.Name)
		}
		if v, ok := t.consts[x.Name]; ok {
			return v
		}
		die(e, t.fset, "unknown identifier %s", x.Name)
	case *ast.SelectorExpr:
		if p, ok := selPath(x); ok {
			if v, ok := knownConsts[p]; ok {
				return v
			}
			if v, ok := t.consts[p]; ok {
				return v
			}
			root := strings.SplitN(p, ".", 2)[0]
			if _, isVar := t.env[root]; isVar {
				if _, seen := t.paths[p]; !seen {
					t.paths[p] = t.fieldType(x)
				}
				return leanIdent(p)
			}
		}
		die(e, t.fset, "unsupported selector")
	case *ast.UnaryExpr:
		if x.Op == token.NOT {
			return "¬ (" + t.expr(x.X, "bool") + ")"
		}
		die(e, t.fset, "unsupported unary operator %s", x.Op)
	case *ast.CallExpr:
		if id, ok := x.Fun.(*ast.Ident); ok && intTypes[id.Name] && len(x.Args) == 1 {
			return t.convert(id.Name, x.Args[0])
		}
		die(e, t.fset, "calls are only supported at statement level (x := f(..), return f(..))")
	case *ast.BinaryExpr:
		ty := t.typeOf(x)
		switch x.Op {
		case token.LAND:
			return "(" + t.expr(x.X, "bool") + " ∧ " + t.expr(x.Y, "bool") + ")"
		case token.LOR:
			return "(" + t.expr(x.X, "bool") + " ∨ " + t.expr(x.Y, "bool") + ")"
		case token.EQL, token.NEQ, token.LSS, token.LEQ, token.GTR, token.GEQ:
			ot := t.typeOf(x.X)
			if ot == "" {
				ot = t.typeOf(x.Y)
			}
			if ot == "" {
				ot = "int"
			}
			if ot == "bool" {
				die(e, t.fset, "bool comparison unsupported")
			}
			op := map[token.Token]string{token.EQL: "=", token.NEQ: "≠", token.LSS: "<", token.LEQ: "≤", token.GTR: ">", token.GEQ: "≥"}[x.Op]
			l, r := t.expr(x.X, ot), t.expr(x.Y, ot)
			if !isUnsigned(ot) {
				l, r = "("+l+" : Int)", "("+r+" : Int)"
			}
			return "(" + l + " " + op + " " + r + ")"
		}
		if ty == "" {
			ty = want
		}
		if ty == "" {
			die(e, t.fset, "untyped constant arithmetic without context")
		}
		l, r := t.expr(x.X, ty), t.expr(x.Y, ty)
		w := width(ty)
		if isUnsigned(ty) {
			switch x.Op {
			case token.ADD:
				return "(wrap" + w + " (" + l + " + " + r + "))"
			case token.MUL:
				return "(wrap" + w + " (" + l + " * " + r + "))"
			case token.SUB:
				return "(sub" + w + " " + paren(l) + " " + paren(r) + ")"
			case token.QUO:
				return "(" + l + " / " + r + ")"
			case token.REM:
				return "(" + l + " % " + r + ")"
			}
		} else if ty == "int" || ty == "int64" {
			switch x.Op {
			case token.ADD:
				return "(wrapI64 (" + l + " + " + r + "))"
			case token.MUL:
				return "(wrapI64 (" + l + " * " + r + "))"
			case token.SUB:
				return "(wrapI64 (" + l + " - " + r + "))"
			case token.QUO:
				return "(divI64 " + paren(l) + " " + paren(r) + ")"
			case token.REM:
				return "(modI64 " + paren(l) + " " + paren(r) + ")"
			}
		}
		die(e, t.fset, "unsupported binary operator %s on %s", x.Op, ty)
	}
	die(e, t.fset, "unsupported expression %T", e)
	return ""
}

func paren(s string) string {
	if strings.ContainsAny(s, " ") && !(strings.HasPrefix(s, "(") && strings.HasSuffix(s, ")")) {
		return "(" + s + ")"
	}
	return s
}

func (t *tr) convert(to string, arg ast.Expr) string {
	from := t.typeOf(arg)
	a := t.expr(arg, to)
	if from == "" {
		return a
	}
	fu, tu := isUnsigned(from), isUnsigned(to)
	switch {
	case fu && tu:
		if width(from) <= width(to) && len(width(from)) <= len(width(to)) {
			wf, _ := strconv.Atoi(width(from))
			wt, _ := strconv.Atoi(width(to))
			if wf <= wt {
				return a
			}
		}
		return "(wrap" + width(to) + " " + paren(a) + ")"
	case fu && !tu:
		if width(to) == "64" {
			return "(wrapI64 ((" + a + " : Nat) : Int))"
		}
		return "(wrapI32 ((" + a + " : Nat) : Int))"
	case !fu && tu:
		return "(toU" + width(to) + " " + paren(a) + ")"
	default:
		if width(to) == "64" {
			return a
		}
		return "(wrapI32 " + paren(a) + ")"
	}
}

// panicCond: Lean Prop under which evaluating e panics (division by zero), or "" if never.
func (t *tr) panicCond(e ast.Expr) string {
	switch x := e.(type) {
	case *ast.ParenExpr:
		return t.panicCond(x.X)
	case *ast.UnaryExpr:
		return t.panicCond(x.X)
	case *ast.CallExpr:
		c := ""
		for _, a := range x.Args {
			c = orP(c, t.panicCond(a))
		}
		return c
	case *ast.BinaryExpr:
		l, r := t.panicCond(x.X), t.panicCond(x.Y)
		switch x.Op {
		case token.LAND:
			if r == "" {
				return l
			}
			return orP(l, "("+t.expr(x.X, "bool")+" ∧ "+r+")")
		case token.LOR:
			if r == "" {
				return l
			}
			return orP(l, "(¬ "+paren(t.expr(x.X, "bool"))+" ∧ "+r+")")
		case token.QUO, token.REM:
			c := orP(l, r)
			if lit, ok := x.Y.(*ast.BasicLit); ok {
				if v, ok := litValue(lit.Value); ok && v != "0" {
					return c
				}
			}
			ty := t.typeOf(x)
			if ty == "" {
				ty = "int"
			}
			d := t.expr(x.Y, ty)
			if v, err := strconv.ParseUint(d, 10, 64); err == nil && v != 0 {
				return c
			}
			if isUnsigned(ty) {
				return orP(c, "("+d+" = 0)")
			}
			return orP(c, "(("+d+" : Int) = 0)")
		}
		return orP(l, r)
	}
	return ""
}

func orP(a, b string) string {
	if a == "" {
		return b
	}
	if b == "" {
		return a
	}
	return "(" + a + " ∨ " + b + ")"
}

func zeroOf(ty string) string {
	if ty == "bool" {
		return "False"
	}
	return "0"
}

func leanType(ty string) string {
	switch {
	case ty == "bool":
		return "Prop"
	case isUnsigned(ty):
		return "Nat"
	case intTypes[ty]:
		return "Int"
	}
	return "Nat"
}

func (t *tr) retType() string {
	if len(t.results) == 0 {
		return "Unit"
	}
	var p []string
	for _, r := range t.results {
		p = append(p, leanType(r))
	}
	return strings.Join(p, " × ")
}

func (t *tr) errExpr(e ast.Expr) string {
	// sentinel variable, local error variable, errors.New / fmt.Errorf
	switch x := e.(type) {
	case *ast.Ident:
		if ty, ok := t.env[x.Name]; ok && ty == "error" {
			return leanIdent(x.Name)
		}
		return "(Err.named " + strconv.Quote(x.Name) + ")"
	case *ast.SelectorExpr:
		if p, ok := selPath(x); ok {
			return "(Err.named " + strconv.Quote(p) + ")"
		}
	case *ast.CallExpr:
		if p, ok := selPath(x.Fun); ok && (p == "errors.New" || p == "fmt.Errorf") {
			t.errCtr++
			return "(Err.other " + strconv.Quote(fmt.Sprintf("%s:%d", t.fn.Name.Name, t.errCtr)) + ")"
		}
		// NewXError(err) wrappers
		if id, ok := x.Fun.(*ast.Ident); ok && len(x.Args) == 1 {
			return "(Err.wrapped " + strconv.Quote(id.Name) + " " + t.errExpr(x.Args[0]) + ")"
		}
	}
	die(e, t.fset, "unsupported error expression")
	return ""
}

func isNil(e ast.Expr) bool {
	id, ok := e.(*ast.Ident)
	return ok && id.Name == "nil"
}

func (t *tr) ret(r *ast.ReturnStmt, ind string) string {
	res := r.Results
	if len(res) == 0 {
		if len(t.named) == 0 && (len(t.results) > 0 || t.hasErr) {
			die(r, t.fset, "bare return without named results")
		}
		var vals []string
		for _, n := range t.named {
			if t.env[n] == "error" {
				continue
			}
			vals = append(vals, leanIdent(n))
		}
		// named error result: only "nil at bare return" is supported
		return ind + "Res.ok " + tuple(vals)
	}
	// single call returned directly
	if len(res) == 1 {
		if c, ok := res[0].(*ast.CallExpr); ok {
			if sig := t.lookupFunc(c); sig != nil {
				if sig.HasErr != t.hasErr || len(sig.Results) != len(t.results) {
					die(r, t.fset, "return f(..) with different signature")
				}
				pc := ""
				for _, a := range c.Args {
					pc = orP(pc, t.panicCond(a))
				}
				return t.guard(pc, ind) + ind + t.callStr(c, sig)
			}
		}
	}
	n := len(t.results)
	if t.hasErr {
		if len(res) != n+1 {
			die(r, t.fset, "return arity")
		}
		last := res[n]
		if !isNil(last) {
			return ind + "Res.err " + t.errExpr(last)
		}
		res = res[:n]
	}
	pc := ""
	var vals []string
	for i, e := range res {
		pc = orP(pc, t.panicCond(e))
		vals = append(vals, t.expr(e, t.results[i]))
	}
	return t.guard(pc, ind) + ind + "Res.ok " + tuple(vals)
}

func tuple(v []string) string {
	if len(v) == 0 {
		return "()"
	}
	if len(v) == 1 {
		return paren(v[0])
	}
	return "(" + strings.Join(v, ", ") + ")"
}

func (t *tr) guard(pc, ind string) string {
	if pc == "" {
		return ""
	}
	return ind + "if " + pc + " then Res.panic \"div0\" else\n"
}

func (t *tr) callStr(c *ast.CallExpr, sig *FuncSig) string {
	var args []string
	// method call: receiver selector paths first
	if sig.Recv != "" {
		s := c.Fun.(*ast.SelectorExpr)
		rp, ok := selPath(s.X)
		if !ok {
			die(c, t.fset, "method receiver must be a selector path")
		}
		for _, p := range sig.RecvPaths {
			full := rp + p[strings.Index(p, "."):]
			if _, seen := t.paths[full]; !seen {
				// register as selector param of the caller
				root := strings.SplitN(full, ".", 2)[0]
				if _, isVar := t.env[root]; !isVar {
					die(c, t.fset, "receiver root %s is not a variable", root)
				}
				t.paths[full] = "uint64"
			}
			args = append(args, leanIdent(full))
		}
	}
	np := len(sig.Params) - len(sig.RecvPaths)
	if len(c.Args) != np {
		die(c, t.fset, "call arity")
	}
	for i, a := range c.Args {
		args = append(args, paren(t.expr(a, sig.PTypes[len(sig.RecvPaths)+i])))
	}
	return sig.LeanName + " " + strings.Join(args, " ")
}

func terminates(stmts []ast.Stmt) bool {
	if len(stmts) == 0 {
		return false
	}
	switch s := stmts[len(stmts)-1].(type) {
	case *ast.ReturnStmt:
		return true
	case *ast.IfStmt:
		if s.Else == nil {
			return false
		}
		eb, ok := s.Else.(*ast.BlockStmt)
		if !ok {
			return terminates(s.Body.List) && terminates([]ast.Stmt{s.Else})
		}
		return terminates(s.Body.List) && terminates(eb.List)
	case *ast.ExprStmt:
		if c, ok := s.X.(*ast.CallExpr); ok {
			if id, ok := c.Fun.(*ast.Ident); ok && id.Name == "panic" {
				return true
			}
		}
	}
	return false
}

// stmts translates a statement list followed by `rest` (the continuation statements).
func (t *tr) stmts(list []ast.Stmt, ind string) string {
	if len(list) == 0 {
		// fell off the end of a function without results
		if len(t.results) == 0 && !t.hasErr {
			return ind + "Res.ok ()"
		}
		die(t.fn, t.fset, "control reaches end of function %s", t.fn.Name.Name)
	}
	s, rest := list[0], list[1:]
	switch x := s.(type) {
	case *ast.ReturnStmt:
		return t.ret(x, ind)
	case *ast.ExprStmt:
		if isLogCall(x.X) {
			return t.stmts(rest, ind)
		}
		if c, ok := x.X.(*ast.CallExpr); ok {
			if id, ok := c.Fun.(*ast.Ident); ok && id.Name == "panic" {
				return ind + "Res.panic \"explicit\""
			}
		}
		die(s, t.fset, "unsupported expression statement")
	case *ast.IncDecStmt:
		id, ok := x.X.(*ast.Ident)
		if !ok {
			die(s, t.fset, "unsupported ++ target")
		}
		ty := t.env[id.Name]
		op := token.ADD
		if x.Tok == token.DEC {
			op = token.SUB
		}
		e := &ast.BinaryExpr{X: id, Op: op, Y: &ast.BasicLit{Kind: token.INT, Value: "1"}}
		_ = ty
		return ind + "let " + leanIdent(id.Name) + " := " + t.expr(e, ty) + "\n" + t.stmts(rest, ind)
	case *ast.DeclStmt:
		gd := x.Decl.(*ast.GenDecl)
		out := ""
		for _, sp := range gd.Specs {
			vs, ok := sp.(*ast.ValueSpec)
			if !ok || vs.Type == nil {
				die(s, t.fset, "unsupported declaration")
			}
			ty := t.typeStr(vs.Type)
			for i, n := range vs.Names {
				val := zeroOf(ty)
				if i < len(vs.Values) {
					out += t.guard(t.panicCond(vs.Values[i]), ind)
					val = t.expr(vs.Values[i], ty)
				}
				t.env[n.Name] = ty
				out += ind + "let " + leanIdent(n.Name) + " : " + leanType(ty) + " := " + val + "\n"
			}
		}
		return out + t.stmts(rest, ind)
	case *ast.AssignStmt:
		return t.assign(x, rest, ind)
	case *ast.IfStmt:
		return t.ifStmt(x, rest, ind)
	case *ast.ForStmt:
		return t.forStmt(x, rest, ind)
	case *ast.BlockStmt:
		return t.stmts(append(append([]ast.Stmt{}, x.List...), rest...), ind)
	}
	die(s, t.fset, "unsupported statement %T", s)
	return ""
}

func (t *tr) assign(x *ast.AssignStmt, rest []ast.Stmt, ind string) string {
	// x, err := f(...) ; if err != nil {...}
	if len(x.Rhs) == 1 {
		if c, ok := x.Rhs[0].(*ast.CallExpr); ok {
			if sig := t.lookupFunc(c); sig != nil {
				return t.callAssign(x, c, sig, rest, ind)
			}
		}
	}
	if len(x.Lhs) != len(x.Rhs) {
		die(x, t.fset, "unsupported assignment shape")
	}
	out := ""
	// Go evaluates all RHS before assigning; support that by only allowing single assignment or
	// independent parallel assignment through temporaries.
	if len(x.Lhs) > 1 {
		die(x, t.fset, "parallel assignment unsupported")
	}
	lhs, ok := x.Lhs[0].(*ast.Ident)
	if !ok {
		die(x, t.fset, "unsupported assignment target")
	}
	rhs := x.Rhs[0]
	// err := fmt.Errorf(...)
	if c, ok := rhs.(*ast.CallExpr); ok {
		if p, ok := selPath(c.Fun); ok && (p == "errors.New" || p == "fmt.Errorf") {
			t.env[lhs.Name] = "error"
			return ind + "let " + leanIdent(lhs.Name) + " : Err := " + t.errExpr(c) + "\n" + t.stmts(rest, ind)
		}
	}
	var ty string
	switch x.Tok {
	case token.DEFINE:
		ty = t.typeOf(rhs)
		if ty == "" {
			ty = "int"
		}
		t.env[lhs.Name] = ty
	case token.ASSIGN:
		ty = t.env[lhs.Name]
	default:
		op, ok := map[token.Token]token.Token{token.ADD_ASSIGN: token.ADD, token.SUB_ASSIGN: token.SUB, token.MUL_ASSIGN: token.MUL, token.QUO_ASSIGN: token.QUO, token.REM_ASSIGN: token.REM}[x.Tok]
		if !ok {
			die(x, t.fset, "unsupported assignment operator %s", x.Tok)
		}
		ty = t.env[lhs.Name]
		rhs = &ast.BinaryExpr{X: lhs, Op: op, Y: rhs}
	}
	if ty == "" || ty == "error" {
		die(x, t.fset, "assignment to %s of unsupported type %q", lhs.Name, ty)
	}
	out += t.guard(t.panicCond(rhs), ind)
	out += ind + "let " + leanIdent(lhs.Name) + " : " + leanType(ty) + " := " + t.expr(rhs, ty) + "\n"
	return out + t.stmts(rest, ind)
}

// errNilCheck recognises `if err != nil { ... }` and returns its body
func errNilCheck(s ast.Stmt, name string) (*ast.IfStmt, bool) {
	is, ok := s.(*ast.IfStmt)
	if !ok || is.Init != nil || is.Else != nil {
		return nil, false
	}
	b, ok := is.Cond.(*ast.BinaryExpr)
	if !ok || b.Op != token.NEQ || !isNil(b.Y) {
		return nil, false
	}
	id, ok := b.X.(*ast.Ident)
	return is, ok && id.Name == name
}

func (t *tr) callAssign(x *ast.AssignStmt, c *ast.CallExpr, sig *FuncSig, rest []ast.Stmt, ind string) string {
	pc := ""
	for _, a := range c.Args {
		pc = orP(pc, t.panicCond(a))
	}
	out := t.guard(pc, ind)
	n := len(sig.Results)
	want := n
	if sig.HasErr {
		want++
	}
	if len(x.Lhs) != want {
		die(x, t.fset, "call assignment arity")
	}
	var names []string
	for i := 0; i < n; i++ {
		id, ok := x.Lhs[i].(*ast.Ident)
		if !ok {
			die(x, t.fset, "unsupported call assignment target")
		}
		if id.Name == "_" {
			names = append(names, "_")
			continue
		}
		t.env[id.Name] = sig.Results[i]
		names = append(names, leanIdent(id.Name))
	}
	pat := tuple(names)
	if n == 0 {
		pat = "_"
	}
	call := t.callStr(c, sig)
	if !sig.HasErr {
		out += ind + "match " + call + " with\n"
		out += ind + "| Res.panic p => Res.panic p\n"
		out += ind + "| Res.err e => Res.err e\n"
		out += ind + "| Res.ok " + pat + " =>\n" + t.stmts(rest, ind+"  ")
		return out
	}
	eid, ok := x.Lhs[n].(*ast.Ident)
	if !ok {
		die(x, t.fset, "error target must be an identifier")
	}
	if eid.Name == "_" {
		die(x, t.fset, "ignored error result unsupported")
	}
	if len(rest) == 0 {
		die(x, t.fset, "error result of call not checked")
	}
	is, ok := errNilCheck(rest[0], eid.Name)
	if !ok {
		die(rest[0], t.fset, "expected `if %s != nil {` right after the call", eid.Name)
	}
	if !terminates(is.Body.List) {
		die(is, t.fset, "error branch must return")
	}
	saved := t.env[eid.Name]
	t.env[eid.Name] = "error"
	out += ind + "match " + call + " with\n"
	out += ind + "| Res.panic p => Res.panic p\n"
	out += ind + "| Res.err " + leanIdent(eid.Name) + " =>\n"
	// `_ = err` use to avoid unused variable lint
	out += ind + "  let _ := " + leanIdent(eid.Name) + "\n"
	out += t.stmts(is.Body.List, ind+"  ") + "\n"
	if saved == "" {
		delete(t.env, eid.Name)
	} else {
		t.env[eid.Name] = saved
	}
	out += ind + "| Res.ok " + pat + " =>\n" + t.stmts(rest[1:], ind+"  ")
	return out
}

func (t *tr) ifStmt(x *ast.IfStmt, rest []ast.Stmt, ind string) string {
	// if err := f(..); err != nil { return ... }
	if x.Init != nil {
		as, ok := x.Init.(*ast.AssignStmt)
		if !ok {
			die(x, t.fset, "unsupported if-init")
		}
		inner := &ast.IfStmt{Cond: x.Cond, Body: x.Body, Else: x.Else}
		return t.stmts(append([]ast.Stmt{as, inner}, rest...), ind)
	}
	// calls to translated single-result functions inside the condition (amount%f(p) != 0) are hoisted
	// into a preceding match, in source order; not under && / || (short-circuit would be lost)
	if pre, cond, ind2, ok := t.hoistCalls(x.Cond, ind); ok {
		return pre + t.ifStmt(&ast.IfStmt{Cond: cond, Body: x.Body, Else: x.Else}, rest, ind2)
	}
	t.ifCount++
	if t.ifCount > 40 {
		die(x, t.fset, "function too branchy for the duplicating translation")
	}
	// an `if err != nil` on a variable that is a Lean-level error string can't occur here
	cond := t.expr(x.Cond, "bool")
	pc := t.panicCond(x.Cond)
	out := t.guard(pc, ind)
	envSave := copyEnv(t.env)
	thenList := x.Body.List
	if !terminates(thenList) {
		thenList = append(append([]ast.Stmt{}, thenList...), rest...)
	}
	out += ind + "if " + cond + " then\n" + t.stmts(thenList, ind+"  ") + "\n"
	t.env = copyEnv(envSave)
	var elseList []ast.Stmt
	if x.Else != nil {
		switch eb := x.Else.(type) {
		case *ast.BlockStmt:
			elseList = eb.List
		default:
			elseList = []ast.Stmt{eb}
		}
	}
	if !terminates(elseList) {
		elseList = append(append([]ast.Stmt{}, elseList...), rest...)
	}
	out += ind + "else\n" + t.stmts(elseList, ind+"  ")
	return out
}

// forStmt supports exactly `for k := T(0); k < n; k++ { v = <pure expr not mentioning k> }`
// (a counted repetition), emitted as Nat.repeat.
func (t *tr) forStmt(x *ast.ForStmt, rest []ast.Stmt, ind string) string {
	init, ok := x.Init.(*ast.AssignStmt)
	if !ok || len(init.Lhs) != 1 || init.Tok != token.DEFINE {
		die(x, t.fset, "unsupported for-init")
	}
	k := init.Lhs[0].(*ast.Ident).Name
	kt := t.typeOf(init.Rhs[0])
	if kt == "" {
		kt = "int"
	}
	t.env[k] = kt
	if t.expr(init.Rhs[0], kt) != "0" {
		die(x, t.fset, "for loop must start at 0")
	}
	c, ok := x.Cond.(*ast.BinaryExpr)
	if !ok || c.Op != token.LSS {
		die(x, t.fset, "for condition must be k < n")
	}
	if id, ok := c.X.(*ast.Ident); !ok || id.Name != k {
		die(x, t.fset, "for condition must be k < n")
	}
	bound := t.expr(c.Y, kt)
	if inc, ok := x.Post.(*ast.IncDecStmt); !ok || inc.Tok != token.INC {
		die(x, t.fset, "for post must be k++")
	}
	if len(x.Body.List) != 1 {
		die(x, t.fset, "for body must be a single assignment")
	}
	as, ok := x.Body.List[0].(*ast.AssignStmt)
	if !ok || len(as.Lhs) != 1 || as.Tok != token.ASSIGN {
		die(x, t.fset, "for body must be a single assignment")
	}
	v := as.Lhs[0].(*ast.Ident).Name
	mentionsK := false
	ast.Inspect(as.Rhs[0], func(n ast.Node) bool {
		if id, ok := n.(*ast.Ident); ok && id.Name == k {
			mentionsK = true
		}
		return true
	})
	if mentionsK || t.panicCond(as.Rhs[0]) != "" {
		die(x, t.fset, "for body must not mention the counter or divide")
	}
	vt := t.env[v]
	body := t.expr(as.Rhs[0], vt)
	delete(t.env, k)
	lv := leanIdent(v)
	b := bound
	if !isUnsigned(kt) {
		b = "(Int.toNat " + paren(bound) + ")"
	}
	out := ind + "let " + lv + " : " + leanType(vt) + " := Nat.repeat (fun " + lv + " => " + body + ") " + paren(b) + " " + lv + "\n"
	return out + t.stmts(rest, ind)
}

// hoistCalls rewrites e so that every call to a translated function becomes a fresh variable bound by
// an enclosing `match` (which propagates panic/err).  ok=false when e contains no such call.
func (t *tr) hoistCalls(e ast.Expr, ind string) (pre string, out ast.Expr, ind2 string, ok bool) {
	var calls []*ast.CallExpr
	shortCircuit := false
	ast.Inspect(e, func(n ast.Node) bool {
		switch v := n.(type) {
		case *ast.BinaryExpr:
			if v.Op == token.LAND || v.Op == token.LOR {
				shortCircuit = true
			}
		case *ast.CallExpr:
			if t.lookupFunc(v) != nil {
				calls = append(calls, v)
				return false
			}
		}
		return true
	})
	if len(calls) == 0 {
		return "", e, ind, false
	}
	if shortCircuit {
		die(e, t.fset, "call to a translated function under && / || in a condition")
	}
	names := map[*ast.CallExpr]string{}
	for _, c := range calls {
		sig := t.lookupFunc(c)
		if sig.HasErr || len(sig.Results) != 1 {
			die(c, t.fset, "call inside an expression must have exactly one non-error result")
		}
		pc := ""
		for _, a := range c.Args {
			pc = orP(pc, t.panicCond(a))
		}
		t.hoistCtr++
		name := fmt.Sprintf("call%d_", t.hoistCtr)
		pre += t.guard(pc, ind)
		pre += ind + "match " + t.callStr(c, sig) + " with\n"
		pre += ind + "| Res.panic p => Res.panic p\n"
		pre += ind + "| Res.err e => Res.err e\n"
		pre += ind + "| Res.ok " + name + " =>\n"
		ind += "  "
		t.env[name] = sig.Results[0]
		names[c] = name
	}
	var rw func(ast.Expr) ast.Expr
	rw = func(x ast.Expr) ast.Expr {
		switch v := x.(type) {
		case *ast.ParenExpr:
			return &ast.ParenExpr{X: rw(v.X)}
		case *ast.UnaryExpr:
			return &ast.UnaryExpr{Op: v.Op, X: rw(v.X)}
		case *ast.BinaryExpr:
			return &ast.BinaryExpr{X: rw(v.X), Op: v.Op, Y: rw(v.Y)}
		case *ast.CallExpr:
			if n, ok := names[v]; ok {
				return &ast.Ident{Name: n}
			}
			args := make([]ast.Expr, len(v.Args))
			for i, a := range v.Args {
				args[i] = rw(a)
			}
			return &ast.CallExpr{Fun: v.Fun, Args: args}
		}
		return x
	}
	return pre, rw(e), ind, true
}

func copyEnv(m map[string]string) map[string]string {
	n := map[string]string{}
	for k, v := range m {
		n[k] = v
	}
	return n
}

func (t *tr) function(fd *ast.FuncDecl, leanName string) (string, *FuncSig) {
	t.fn = fd
	t.env = map[string]string{}
	t.paths = map[string]string{}
	t.named, t.results, t.hasErr, t.errCtr, t.ifCount, t.hoistCtr = nil, nil, false, 0, 0, 0
	sig := &FuncSig{LeanName: t.unit.Module + "." + leanName}
	var params, ptypes []string
	structParams := map[string]bool{}
	addParam := func(name, ty string) {
		t.env[name] = ty
		base := strings.TrimPrefix(ty, "*")
		if intTypes[base] || base == "bool" {
			params = append(params, name)
			ptypes = append(ptypes, base)
		} else {
			structParams[name] = true
		}
	}
	if fd.Recv != nil {
		f := fd.Recv.List[0]
		ty := t.typeStr(f.Type)
		sig.Recv = ty
		if len(f.Names) > 0 {
			addParam(f.Names[0].Name, ty)
			t.recv = f.Names[0].Name
		}
	}
	for _, f := range fd.Type.Params.List {
		ty := t.typeStr(f.Type)
		for _, n := range f.Names {
			addParam(n.Name, ty)
		}
	}
	if fd.Type.Results != nil {
		for _, f := range fd.Type.Results.List {
			ty := t.typeStr(f.Type)
			cnt := len(f.Names)
			if cnt == 0 {
				cnt = 1
			}
			for i := 0; i < cnt; i++ {
				if ty == "error" {
					t.hasErr = true
				} else {
					t.results = append(t.results, ty)
				}
				if len(f.Names) > 0 {
					t.named = append(t.named, f.Names[i].Name)
					t.env[f.Names[i].Name] = ty
				}
			}
		}
	}
	body := ""
	for _, n := range t.named {
		if t.env[n] != "error" {
			body += "  let " + leanIdent(n) + " : " + leanType(t.env[n]) + " := " + zeroOf(t.env[n]) + "\n"
		}
	}
	body += t.stmts(fd.Body.List, "  ")
	// selector-path params, sorted, first
	var pp []string
	for p := range t.paths {
		pp = append(pp, p)
	}
	sort.Strings(pp)
	var allParams, allTypes []string
	for _, p := range pp {
		allParams = append(allParams, leanIdent(p))
		allTypes = append(allTypes, t.paths[p])
		root := strings.SplitN(p, ".", 2)[0]
		if root == t.recv && fd.Recv != nil {
			sig.RecvPaths = append(sig.RecvPaths, p)
		} else if structParams[root] {
			die(fd, t.fset, "struct-typed non-receiver parameters unsupported (%s)", root)
		}
	}
	for i, p := range params {
		allParams = append(allParams, leanIdent(p))
		allTypes = append(allTypes, ptypes[i])
	}
	sig.Params, sig.PTypes, sig.Results, sig.HasErr = allParams, allTypes, t.results, t.hasErr
	var ps []string
	for i, p := range allParams {
		ps = append(ps, "("+p+" : "+leanType(allTypes[i])+")")
	}
	hdr := "def " + leanName + " " + strings.Join(ps, " ") + " : Res (" + t.retType() + ") :=\n"
	return hdr + body + "\n", sig
}

func main() {
	repo := flag.String("repo", "/repo", "repository root")
	unitsF := flag.String("units", "/verif/tools/extract/units", "units file or directory of *.json (processed in name order)")
	out := flag.String("out", "/verif/lean", "lean project root")
	flag.Parse()
	var units []Unit
	files := []string{*unitsF}
	if st, err := os.Stat(*unitsF); err == nil && st.IsDir() {
		files, _ = filepath.Glob(filepath.Join(*unitsF, "*.json"))
		sort.Strings(files)
	}
	for _, f := range files {
		var us []Unit
		b, err := os.ReadFile(f)
		if err != nil {
			fmt.Fprintln(os.Stderr, err)
			os.Exit(2)
		}
		if err := json.Unmarshal(b, &us); err != nil {
			fmt.Fprintln(os.Stderr, f, err)
			os.Exit(2)
		}
		units = append(units, us...)
	}
	failed := false
	for i := range units {
		u := &units[i]
		src, ok := translateUnit(*repo, u)
		path := filepath.Join(*out, strings.ReplaceAll(u.Module, ".", "/")+".lean")
		if !ok {
			failed = true
			// leave a file that fails to elaborate, so a stale translation is never used
			src = "-- TRANSLATION FAILED\n#eval (show Nat from \"translation failed: " + u.Module + "\")\n"
		}
		old, _ := os.ReadFile(path)
		if string(old) != src {
			os.MkdirAll(filepath.Dir(path), 0o755)
			if err := os.WriteFile(path, []byte(src), 0o644); err != nil {
				fmt.Fprintln(os.Stderr, err)
				os.Exit(2)
			}
		}
	}
	mj, _ := json.MarshalIndent(metas, "", " ")
	os.WriteFile(filepath.Join(*out, "Sky/Gen/gosubset.meta.json"), mj, 0o644)
	if failed {
		os.Exit(3)
	}
}

func translateUnit(repo string, u *Unit) (src string, ok bool) {
	defer func() {
		if r := recover(); r != nil {
			if f, isFail := r.(fail); isFail {
				fmt.Fprintf(os.Stderr, "gosubset: %s: %s\n", u.Module, f.msg)
				ok = false
				return
			}
			panic(r)
		}
	}()
	fset := token.NewFileSet()
	path := filepath.Join(repo, u.File)
	file, err := parser.ParseFile(fset, path, nil, parser.ParseComments)
	if err != nil {
		panic(fail{err.Error()})
	}
	t := &tr{fset: fset, unit: u, file: file, structs: map[string]map[string]string{}, consts: map[string]string{}, ctypes: map[string]string{}}
	for k, v := range u.Consts {
		t.consts[k] = v
		t.ctypes[k] = ""
	}
	// struct and const declarations of the whole package directory
	dir := filepath.Dir(path)
	ents, _ := os.ReadDir(dir)
	for _, e := range ents {
		if !strings.HasSuffix(e.Name(), ".go") || strings.HasSuffix(e.Name(), "_test.go") {
			continue
		}
		f, err := parser.ParseFile(fset, filepath.Join(dir, e.Name()), nil, 0)
		if err != nil || f.Name.Name != file.Name.Name {
			continue
		}
		for _, d := range f.Decls {
			gd, ok := d.(*ast.GenDecl)
			if !ok {
				continue
			}
			for _, sp := range gd.Specs {
				switch s := sp.(type) {
				case *ast.TypeSpec:
					if st, ok := s.Type.(*ast.StructType); ok {
						fs := map[string]string{}
						for _, fl := range st.Fields.List {
							ty := func() (r string) {
								defer func() {
									if recover() != nil {
										r = "?"
									}
								}()
								return t.typeStr(fl.Type)
							}()
							for _, n := range fl.Names {
								fs[n.Name] = ty
							}
						}
						t.structs[s.Name.Name] = fs
					}
				case *ast.ValueSpec:
					if gd.Tok != token.CONST {
						continue
					}
					for i, n := range s.Names {
						if i < len(s.Values) {
							if lit, ok := s.Values[i].(*ast.BasicLit); ok {
								if v, ok := litValue(lit.Value); ok {
									t.consts[n.Name] = v
									ty := ""
									if s.Type != nil {
										ty = t.typeStr(s.Type)
									}
									t.ctypes[n.Name] = ty
								}
							}
						}
					}
				}
			}
		}
	}
	var sb strings.Builder
	sb.WriteString("/- REGENERATED by tools/extract/gosubset from " + u.File + " — do not edit. -/\n")
	sb.WriteString("import Sky.Prim.Res\n")
	for _, im := range u.Imports {
		sb.WriteString("import " + im + "\n")
	}
	sb.WriteString("set_option linter.unusedVariables false\n")
	sb.WriteString("namespace " + u.Module + "\nopen Sky\n\n")
	for _, want := range u.Funcs {
		var fd *ast.FuncDecl
		for _, d := range file.Decls {
			f, ok := d.(*ast.FuncDecl)
			if !ok {
				continue
			}
			name := f.Name.Name
			if f.Recv != nil {
				name = t.typeStr(f.Recv.List[0].Type) + "." + name
			}
			if name == want {
				fd = f
			}
		}
		if fd == nil {
			panic(fail{"function " + want + " not found in " + u.File})
		}
		leanName := strings.ReplaceAll(want, ".", "_")
		code, sig := t.function(fd, leanName)
		funcTable[u.Pkg+"."+want] = sig
		var buf strings.Builder
		printer.Fprint(&buf, fset, fd)
		h := sha256.Sum256([]byte(buf.String()))
		metas = append(metas, Meta{Module: u.Module, File: u.File, Func: want, Lean: sig.LeanName,
			SHA: fmt.Sprintf("%x", h[:8]), Params: strings.Join(sig.Params, " ")})
		sb.WriteString("/-- " + u.File + " : " + want + " -/\n")
		sb.WriteString(code)
	}
	sb.WriteString("end " + u.Module + "\n")
	return sb.String(), true
}
