// saveops: extract the file-system operation sequence of file.SaveBinary (src/util/file/file.go)
// from its function body and emit it as a Lean definition (Sky.Gen.SaveOps), together with the
// facts the C20 theorems need about its callers:
//
//   - the shape of the temporary file name (filename + <literal> + <first n hex chars of a hash>)
//   - file.SaveJSON, wallet.Save and kvStorage.flush / initEmptyStorage delegate to SaveBinary
//   - the suffixes the wallet loader looks at (wallet.WalletExt, ".wlt", ".wlt.bak" literals in
//     removeBackupFiles)
//
// Accepted statement shapes in SaveBinary (anything else is a hard error, exit 2):
//
//	x := cipher.SumSHA256(data)                        pure, binds a hash
//	t := filename + "<lit>" + x.Hex()[:n]              binds the tmp path
//	if err := CALL; err != nil { return err }          CALL's ops, stop on error
//	err := CALL ; if err != nil { return err }         same
//	return CALL                                        CALL's ops
//	return nil
//
// with CALL one of
//
//	ioutil.WriteFile(p, data, mode) / os.WriteFile(p, data, mode)   -> trunc p, append p
//	os.Rename(p, q)                                                  -> rename p q
//	os.Remove(p)                                                     -> remove p
//
// and p, q ∈ {filename, the tmp variable}.
//
// usage: saveops -repo /repo -out /verif/lean
package main

import (
	"flag"
	"fmt"
	"go/ast"
	"go/parser"
	"go/token"
	"os"
	"path/filepath"
	"sort"
	"strconv"
	"strings"
)

func die(f string, a ...interface{}) {
	fmt.Fprintf(os.Stderr, "saveops: "+f+"\n", a...)
	os.Exit(2)
}

func parse(fset *token.FileSet, path string) *ast.File {
	f, err := parser.ParseFile(fset, path, nil, 0)
	if err != nil {
		die("parse %s: %v", path, err)
	}
	return f
}

func findFunc(f *ast.File, recv, name string) *ast.FuncDecl {
	for _, d := range f.Decls {
		fd, ok := d.(*ast.FuncDecl)
		if !ok || fd.Name.Name != name {
			continue
		}
		if recv == "" && fd.Recv == nil {
			return fd
		}
		if recv != "" && fd.Recv != nil && len(fd.Recv.List) == 1 {
			t := fd.Recv.List[0].Type
			if s, ok := t.(*ast.StarExpr); ok {
				t = s.X
			}
			if id, ok := t.(*ast.Ident); ok && id.Name == recv {
				return fd
			}
		}
	}
	return nil
}

func sel(e ast.Expr) string {
	if s, ok := e.(*ast.SelectorExpr); ok {
		if x, ok := s.X.(*ast.Ident); ok {
			return x.Name + "." + s.Sel.Name
		}
	}
	return ""
}

type ext struct {
	fileParam, dataParam string
	hashVar, tmpVar      string
	tmpLit               string
	tmpHexLen            int
	ops                  []string
}

func (x *ext) path(e ast.Expr) string {
	id, ok := e.(*ast.Ident)
	if !ok {
		die("path argument is not an identifier")
	}
	switch id.Name {
	case x.fileParam:
		return ".target"
	case x.tmpVar:
		if x.tmpVar == "" {
			break
		}
		return ".tmp"
	}
	die("path argument %q is neither the filename parameter nor the tmp variable", id.Name)
	return ""
}

func (x *ext) call(e ast.Expr) {
	c, ok := e.(*ast.CallExpr)
	if !ok {
		die("expected a call expression")
	}
	switch sel(c.Fun) {
	case "ioutil.WriteFile", "os.WriteFile":
		if len(c.Args) != 3 {
			die("WriteFile: 3 args expected")
		}
		if id, ok := c.Args[1].(*ast.Ident); !ok || id.Name != x.dataParam {
			die("WriteFile writes something other than the data parameter")
		}
		p := x.path(c.Args[0])
		x.ops = append(x.ops, "FsOp.trunc "+p, "FsOp.append "+p)
	case "os.Rename":
		if len(c.Args) != 2 {
			die("Rename: 2 args expected")
		}
		x.ops = append(x.ops, "FsOp.rename "+x.path(c.Args[0])+" "+x.path(c.Args[1]))
	case "os.Remove":
		if len(c.Args) != 1 {
			die("Remove: 1 arg expected")
		}
		x.ops = append(x.ops, "FsOp.remove "+x.path(c.Args[0]))
	default:
		die("unsupported call in SaveBinary: %s", sel(c.Fun))
	}
}

func isErrNotNil(e ast.Expr) bool {
	b, ok := e.(*ast.BinaryExpr)
	if !ok || b.Op != token.NEQ {
		return false
	}
	l, ok1 := b.X.(*ast.Ident)
	r, ok2 := b.Y.(*ast.Ident)
	return ok1 && ok2 && l.Name == "err" && r.Name == "nil"
}

func isReturnErr(b *ast.BlockStmt) bool {
	if len(b.List) != 1 {
		return false
	}
	r, ok := b.List[0].(*ast.ReturnStmt)
	if !ok || len(r.Results) != 1 {
		return false
	}
	id, ok := r.Results[0].(*ast.Ident)
	return ok && id.Name == "err"
}

func (x *ext) stmt(s ast.Stmt, next ast.Stmt) (skipNext bool) {
	switch s := s.(type) {
	case *ast.AssignStmt:
		if len(s.Lhs) != 1 || len(s.Rhs) != 1 || s.Tok != token.DEFINE {
			die("unsupported assignment")
		}
		lhs := s.Lhs[0].(*ast.Ident).Name
		// x := cipher.SumSHA256(data)
		if c, ok := s.Rhs[0].(*ast.CallExpr); ok && sel(c.Fun) == "cipher.SumSHA256" {
			x.hashVar = lhs
			return false
		}
		// t := filename + "lit" + h.Hex()[:n]
		if b, ok := s.Rhs[0].(*ast.BinaryExpr); ok && b.Op == token.ADD {
			b2, ok := b.X.(*ast.BinaryExpr)
			if !ok || b2.Op != token.ADD {
				die("tmp name: expected filename + literal + hex")
			}
			if id, ok := b2.X.(*ast.Ident); !ok || id.Name != x.fileParam {
				die("tmp name does not start with the filename parameter")
			}
			lit, ok := b2.Y.(*ast.BasicLit)
			if !ok || lit.Kind != token.STRING {
				die("tmp name: literal expected")
			}
			x.tmpLit, _ = strconv.Unquote(lit.Value)
			sl, ok := b.Y.(*ast.SliceExpr)
			if !ok || sl.Low != nil || sl.High == nil {
				die("tmp name: expected h.Hex()[:n]")
			}
			n, ok := sl.High.(*ast.BasicLit)
			if !ok {
				die("tmp name: literal slice bound expected")
			}
			x.tmpHexLen, _ = strconv.Atoi(n.Value)
			c, ok := sl.X.(*ast.CallExpr)
			if !ok {
				die("tmp name: expected h.Hex()")
			}
			se, ok := c.Fun.(*ast.SelectorExpr)
			if !ok || se.Sel.Name != "Hex" {
				die("tmp name: expected h.Hex()")
			}
			if id, ok := se.X.(*ast.Ident); !ok || id.Name != x.hashVar {
				die("tmp name: hex of something other than the data hash")
			}
			x.tmpVar = lhs
			return false
		}
		// err := CALL ; if err != nil { return err }
		if lhs == "err" {
			ifs, ok := next.(*ast.IfStmt)
			if !ok || ifs.Init != nil || !isErrNotNil(ifs.Cond) || !isReturnErr(ifs.Body) || ifs.Else != nil {
				die("err := CALL must be followed by if err != nil { return err }")
			}
			x.call(s.Rhs[0])
			return true
		}
		die("unsupported assignment to %s", lhs)
	case *ast.IfStmt:
		as, ok := s.Init.(*ast.AssignStmt)
		if !ok || len(as.Lhs) != 1 || len(as.Rhs) != 1 || as.Lhs[0].(*ast.Ident).Name != "err" ||
			!isErrNotNil(s.Cond) || !isReturnErr(s.Body) || s.Else != nil {
			die("unsupported if statement (only `if err := CALL; err != nil { return err }`)")
		}
		x.call(as.Rhs[0])
		return false
	case *ast.ReturnStmt:
		if next != nil {
			die("statements after return")
		}
		if len(s.Results) != 1 {
			die("return: one result expected")
		}
		if id, ok := s.Results[0].(*ast.Ident); ok && id.Name == "nil" {
			return false
		}
		x.call(s.Results[0])
		return false
	default:
		die("unsupported statement %T in SaveBinary", s)
	}
	return false
}

// lastReturnCalls checks that fn's last statement is `return <pkgsel>(…)` and returns the args.
func lastReturnCalls(fd *ast.FuncDecl, want string) []ast.Expr {
	if fd == nil || fd.Body == nil || len(fd.Body.List) == 0 {
		die("function missing (expected to end in return %s(...))", want)
	}
	r, ok := fd.Body.List[len(fd.Body.List)-1].(*ast.ReturnStmt)
	if !ok || len(r.Results) != 1 {
		die("%s: last statement is not `return %s(...)`", fd.Name.Name, want)
	}
	c, ok := r.Results[0].(*ast.CallExpr)
	if !ok {
		die("%s: last statement is not `return %s(...)`", fd.Name.Name, want)
	}
	got := sel(c.Fun)
	if got == "" {
		if id, ok := c.Fun.(*ast.Ident); ok {
			got = id.Name
		}
	}
	if got != want {
		die("%s: returns %s(...), expected %s(...)", fd.Name.Name, got, want)
	}
	return c.Args
}

func leanStr(s string) string { return strconv.Quote(s) }

func main() {
	repo := flag.String("repo", "/repo", "")
	out := flag.String("out", "/verif/lean", "")
	flag.Parse()
	fset := token.NewFileSet()

	ff := parse(fset, filepath.Join(*repo, "src/util/file/file.go"))
	sb := findFunc(ff, "", "SaveBinary")
	if sb == nil {
		die("file.SaveBinary not found")
	}
	ps := sb.Type.Params.List
	if len(ps) != 3 || len(ps[0].Names) != 1 || len(ps[1].Names) != 1 {
		die("SaveBinary: expected (filename string, data []byte, mode os.FileMode)")
	}
	x := &ext{fileParam: ps[0].Names[0].Name, dataParam: ps[1].Names[0].Name}
	body := sb.Body.List
	for i := 0; i < len(body); i++ {
		var next ast.Stmt
		if i+1 < len(body) {
			next = body[i+1]
		}
		if x.stmt(body[i], next) {
			i++
		}
	}
	if len(x.ops) == 0 {
		die("SaveBinary performs no file operation")
	}
	// a function that falls off the end without return is impossible (it returns error), fine.

	// SaveJSON -> SaveBinary
	lastReturnCalls(findFunc(ff, "", "SaveJSON"), "SaveBinary")
	// wallet.Save -> file.SaveBinary
	wf := parse(fset, filepath.Join(*repo, "src/wallet/wallet.go"))
	lastReturnCalls(findFunc(wf, "", "Save"), "file.SaveBinary")
	// kvStorage.flush / initEmptyStorage -> file.SaveJSON
	kf := parse(fset, filepath.Join(*repo, "src/kvstorage/kvstorage.go"))
	lastReturnCalls(findFunc(kf, "kvStorage", "flush"), "file.SaveJSON")
	mf := parse(fset, filepath.Join(*repo, "src/kvstorage/manager.go"))
	lastReturnCalls(findFunc(mf, "", "initEmptyStorage"), "file.SaveJSON")

	// loader suffixes: wallet.WalletExt and the string literals passed to filterDir in removeBackupFiles
	var suffixes []string
	for _, d := range wf.Decls {
		gd, ok := d.(*ast.GenDecl)
		if !ok || gd.Tok != token.CONST {
			continue
		}
		for _, sp := range gd.Specs {
			vs := sp.(*ast.ValueSpec)
			for i, n := range vs.Names {
				if n.Name == "WalletExt" && i < len(vs.Values) {
					if l, ok := vs.Values[i].(*ast.BasicLit); ok {
						s, _ := strconv.Unquote(l.Value)
						suffixes = append(suffixes, s)
					}
				}
			}
		}
	}
	if len(suffixes) != 1 {
		die("wallet.WalletExt string constant not found")
	}
	rb := findFunc(wf, "", "removeBackupFiles")
	if rb != nil {
		ast.Inspect(rb, func(n ast.Node) bool {
			c, ok := n.(*ast.CallExpr)
			if !ok {
				return true
			}
			if id, ok := c.Fun.(*ast.Ident); ok && id.Name == "filterDir" && len(c.Args) == 2 {
				l, ok := c.Args[1].(*ast.BasicLit)
				if !ok {
					die("removeBackupFiles: filterDir suffix is not a literal")
				}
				s, _ := strconv.Unquote(l.Value)
				suffixes = append(suffixes, s)
			}
			return true
		})
	}
	// loadWallets must filter with strings.HasSuffix(name, WalletExt)
	sf := parse(fset, filepath.Join(*repo, "src/wallet/service.go"))
	lw := findFunc(sf, "Service", "loadWallets")
	found := false
	if lw != nil {
		ast.Inspect(lw, func(n ast.Node) bool {
			c, ok := n.(*ast.CallExpr)
			if ok && sel(c.Fun) == "strings.HasSuffix" && len(c.Args) == 2 {
				if id, ok := c.Args[1].(*ast.Ident); ok && id.Name == "WalletExt" {
					found = true
				}
			}
			return true
		})
	}
	if !found {
		die("Service.loadWallets does not filter on strings.HasSuffix(name, WalletExt)")
	}

	// file.IsWritable: the probe NewAddresses/ScanAddresses run on the wallet file before saving
	iw := findFunc(ff, "", "IsWritable")
	if iw == nil {
		die("file.IsWritable not found")
	}
	var probeOps []string
	nOpen := 0
	ast.Inspect(iw, func(n ast.Node) bool {
		c, ok := n.(*ast.CallExpr)
		if !ok {
			return true
		}
		name := sel(c.Fun)
		switch name {
		case "os.OpenFile":
			nOpen++
			if len(c.Args) != 3 {
				die("IsWritable: os.OpenFile with 3 args expected")
			}
			if id, ok := c.Args[0].(*ast.Ident); !ok || id.Name != iw.Type.Params.List[0].Names[0].Name {
				die("IsWritable opens something other than its argument")
			}
			flags := map[string]bool{}
			var walk func(e ast.Expr)
			walk = func(e ast.Expr) {
				switch e := e.(type) {
				case *ast.BinaryExpr:
					if e.Op != token.OR {
						die("IsWritable: unsupported flag expression")
					}
					walk(e.X)
					walk(e.Y)
				case *ast.SelectorExpr:
					flags[sel(e)] = true
				default:
					die("IsWritable: unsupported flag expression")
				}
			}
			walk(c.Args[1])
			for f := range flags {
				switch f {
				case "os.O_WRONLY", "os.O_RDWR", "os.O_CREATE", "os.O_TRUNC", "os.O_RDONLY":
				default:
					die("IsWritable: unsupported open flag %s", f)
				}
			}
			if flags["os.O_TRUNC"] {
				probeOps = append(probeOps, "FsOp.trunc .target")
			} else if flags["os.O_CREATE"] {
				probeOps = append(probeOps, "FsOp.touch .target")
			}
		case "os.IsPermission", "os.IsNotExist", "f.Close", "os.Stat":
		default:
			die("IsWritable: unsupported call %q", name)
		}
		return true
	})
	if nOpen != 1 {
		die("IsWritable: exactly one os.OpenFile expected")
	}

	// every Service method that saves a wallet, and whether it probes with IsWritable first
	type saver struct {
		name  string
		probe bool
	}
	var savers []saver
	type minfo struct {
		save, probe bool
		calls       []string // other Service methods called through the receiver
		order       int
	}
	methods := map[string]*minfo{}
	norder := 0
	for _, d := range sf.Decls {
		fd, ok := d.(*ast.FuncDecl)
		if !ok || fd.Body == nil {
			continue
		}
		recvName := ""
		if fd.Recv != nil && len(fd.Recv.List) == 1 && len(fd.Recv.List[0].Names) == 1 {
			recvName = fd.Recv.List[0].Names[0].Name
		}
		var savePos, probePos token.Pos
		mi := &minfo{order: norder}
		norder++
		ast.Inspect(fd, func(n ast.Node) bool {
			c, ok := n.(*ast.CallExpr)
			if !ok {
				return true
			}
			if id, ok := c.Fun.(*ast.Ident); ok && id.Name == "Save" && savePos == 0 {
				savePos = c.Pos()
			}
			if se, ok := c.Fun.(*ast.SelectorExpr); ok && recvName != "" {
				if x, ok := se.X.(*ast.Ident); ok && x.Name == recvName {
					mi.calls = append(mi.calls, se.Sel.Name)
				}
			}
			switch sel(c.Fun) {
			case "file.IsWritable":
				if probePos == 0 {
					probePos = c.Pos()
				}
			case "os.Remove", "os.Rename", "os.OpenFile", "os.Create", "ioutil.WriteFile", "os.WriteFile",
				"file.SaveBinary", "file.SaveJSON", "file.Copy", "os.Truncate", "os.RemoveAll":
				die("src/wallet/service.go %s: direct file mutation %s is outside the model", fd.Name.Name, sel(c.Fun))
			}
			return true
		})
		if savePos == 0 && probePos != 0 {
			die("service.go %s: IsWritable without Save", fd.Name.Name)
		}
		if probePos != 0 && probePos > savePos {
			die("service.go %s: IsWritable after Save", fd.Name.Name)
		}
		mi.save, mi.probe = savePos != 0, probePos != 0
		methods[fd.Name.Name] = mi
	}
	// a method that saves through another Service method (a helper such as saveWallet) inherits the
	// helper's operations, including its probe
	for changed := true; changed; {
		changed = false
		for _, mi := range methods {
			for _, c := range mi.calls {
				if cm, ok := methods[c]; ok && cm.save {
					if !mi.save || (cm.probe && !mi.probe) {
						mi.save, mi.probe = true, mi.probe || cm.probe
						changed = true
					}
				}
			}
		}
	}
	for name, mi := range methods {
		if mi.save {
			savers = append(savers, saver{name, mi.probe})
		}
	}
	sort.Slice(savers, func(i, j int) bool { return methods[savers[i].name].order < methods[savers[j].name].order })
	if len(savers) == 0 {
		die("no Service method calls Save")
	}

	var b strings.Builder
	b.WriteString("/- REGENERATED by tools/extract/saveops from src/util/file/file.go (SaveBinary), src/wallet/wallet.go,\n")
	b.WriteString("   src/wallet/service.go, src/kvstorage/*.go.  Do not edit. -/\n")
	b.WriteString("import Sky.C20.Model\nnamespace Sky.Gen.SaveOps\nopen Sky.C20\n\n")
	b.WriteString("/-- the file-system operations SaveBinary issues, in program order -/\n")
	b.WriteString("def saveOps : List FsOp :=\n  [" + strings.Join(x.ops, ",\n   ") + "]\n\n")
	if x.tmpVar != "" {
		b.WriteString("/-- `filename + lit + hash.Hex()[:n]`; `h` stands for the n hex characters -/\n")
		b.WriteString("def tmpLit : List Char := " + leanStr(x.tmpLit) + ".toList\n")
		b.WriteString(fmt.Sprintf("def tmpHexLen : Nat := %d\n", x.tmpHexLen))
	} else {
		b.WriteString("def tmpLit : List Char := []\ndef tmpHexLen : Nat := 0\n")
	}
	b.WriteString("def tmpName (f h : List Char) : List Char := f ++ tmpLit ++ h\n\n")
	b.WriteString("/-- file-name suffixes the wallet loader acts on (WalletExt; removeBackupFiles literals) -/\n")
	var ss []string
	for _, s := range suffixes {
		ss = append(ss, leanStr(s)+".toList")
	}
	b.WriteString("def loaderSuffixes : List (List Char) := [" + strings.Join(ss, ", ") + "]\n\n")
	b.WriteString("/-- file operations of file.IsWritable (the probe some Service methods run on the wallet file before Save) -/\n")
	b.WriteString("def probeOps : List FsOp := [" + strings.Join(probeOps, ", ") + "]\n\n")
	b.WriteString("/-- the wallet.Service methods that call Save, with: do they call file.IsWritable first -/\n")
	var sv []string
	for _, x := range savers {
		sv = append(sv, fmt.Sprintf("(%s, %v)", leanStr(x.name), x.probe))
	}
	b.WriteString("def savers : List (String × Bool) :=\n  [" + strings.Join(sv, ", ") + "]\n\n")
	b.WriteString("end Sky.Gen.SaveOps\n")

	dst := filepath.Join(*out, "Sky/Gen/SaveOps.lean")
	old, _ := os.ReadFile(dst)
	if string(old) != b.String() {
		if err := os.MkdirAll(filepath.Dir(dst), 0755); err != nil {
			die("%v", err)
		}
		if err := os.WriteFile(dst, []byte(b.String()), 0644); err != nil {
			die("%v", err)
		}
	}
	fmt.Printf("saveops: %d ops: %s\n", len(x.ops), strings.Join(x.ops, "; "))
}
