// routes: extract the HTTP route table and the middleware chain of every route from
// src/api/http.go `newServerMux` (tie "T" for C27; the table also drives the C27/C28 harnesses).
//
// The function is read with go/ast and *interpreted*: the local registration closures
// (webHandlerWithOptionals, webHandler, webHandlerV1/V2, csrfHandlerV1, headerCheck, ...) are not
// assumed, their bodies are executed symbolically for every registration call, so that the chain
// emitted for a route is the sequence of `handler = M(..., handler)` wrappings the code really
// performs for it (with the `if checkCSRF`, `if checkHeaders`, `if apiVersion == apiVersion2`,
// `if methodAPISets != nil` conditionals resolved per call).
//
// Accepted shapes are deliberately narrow; anything else in a statement that can reach
// mux.Handle is a hard error (exit 2) - never a silent default.
//
// Output:  <out>/Sky/Gen/Routes.lean   (module Sky.Gen.Routes, imports Sky.C27.Model)
//          <out>/Sky/Gen/routes.json   (same table for the Go harnesses)
//
// usage: routes -repo /repo -out /verif/lean
package main

import (
	"bytes"
	"encoding/json"
	"flag"
	"fmt"
	"go/ast"
	"go/parser"
	"go/printer"
	"go/token"
	"os"
	"path/filepath"
	"strconv"
	"strings"
)

func die(pos token.Pos, f string, a ...interface{}) {
	p := ""
	if pos.IsValid() {
		p = fset.Position(pos).String() + ": "
	}
	fmt.Fprintf(os.Stderr, "routes: %s%s\n", p, fmt.Sprintf(f, a...))
	os.Exit(2)
}

var fset = token.NewFileSet()

func src(n ast.Node) string {
	var b bytes.Buffer
	printer.Fprint(&b, fset, n)
	return strings.Join(strings.Fields(b.String()), " ")
}

// ---- abstract values -------------------------------------------------------------------------

type kind int

const (
	kStr      kind = iota // known string
	kVer                  // API version constant ("v1"/"v2")
	kBool                 // known bool
	kNotNoHdr             // the expression `!c.disableHeaderCheck`
	kSets                 // methodAPISets: nil or a literal map
	kHandler              // an http.Handler built so far: label of the innermost + wrappings
	kCfg                  // a field of the mux config `c.<field>`
	kSymStr               // a string not known statically (GUI file routes)
	kOpaque               // anything else; only allowed where it is not looked at
)

type mwUse struct {
	Name string `json:"mw"`   // gzip|basicAuth|contentTypeJSON|hostCheck|originRefererCheck|csrf|cors|elapsed|gate
	Cond string `json:"cond"` // always|unlessHeaderCheckDisabled
}

type value struct {
	k     kind
	s     string              // kStr/kVer/kCfg/kOpaque text
	b     bool                // kBool
	isNil bool                // kSets
	sets  map[string][]string // kSets: method -> api set names (const values, e.g. "READ")
	order []string            // kSets: methods in source order
	chain []mwUse             // kHandler: wrappings applied so far, innermost first
	label string              // kHandler: source text of the innermost handler expression
	gate  *value              // kHandler: the sets of its gate (if wrapped by forMethodAPISets)
}

type closure struct {
	name string
	lit  *ast.FuncLit
}

type env struct {
	vars   map[string]value
	parent *env
}

func (e *env) get(n string) (value, bool) {
	for x := e; x != nil; x = x.parent {
		if v, ok := x.vars[n]; ok {
			return v, true
		}
	}
	return value{}, false
}

// ---- result ----------------------------------------------------------------------------------

type route struct {
	Path    string              `json:"path"`    // "" for the GUI template (symbolic path)
	GUI     bool                `json:"gui"`     // registered only under `if c.enableGUI`, once per static file
	Version string              `json:"version"` // v1|v2
	Gated   bool                `json:"gated"`
	Methods map[string][]string `json:"methods"` // only if gated
	MOrder  []string            `json:"method_order"`
	Chain   []mwUse             `json:"chain"` // OUTERMOST first
	Handler string              `json:"handler"`
	CSRF    bool                `json:"csrf"`
	Hdr     string              `json:"header_check"` // always|never|unlessHeaderCheckDisabled
}

var (
	routes      []route
	closures    = map[string]*closure{}
	registering = map[string]bool{} // closures that (transitively) reach mux.Handle
	muxVar      string
	cfgVar      string
	stringConst = map[string]string{} // package-level string constants of http.go
	corsPass    = "false"
	inGUI       bool
)

var methodConst = map[string]string{"MethodGet": "GET", "MethodPost": "POST", "MethodPut": "PUT", "MethodDelete": "DELETE",
	"MethodHead": "HEAD", "MethodOptions": "OPTIONS", "MethodPatch": "PATCH"}

// api-set string value -> Lean constructor of Sky.C27.ApiSet
var apiSetCtor = map[string]string{"READ": "READ", "STATUS": "STATUS", "TXN": "TXN", "WALLET": "WALLET",
	"INSECURE_WALLET_SEED": "INSECURE_WALLET_SEED", "NET_CTRL": "NET_CTRL", "STORAGE": "STORAGE"}

// ---- expression evaluation -------------------------------------------------------------------

func eval(e *env, x ast.Expr) value {
	switch n := x.(type) {
	case *ast.ParenExpr:
		return eval(e, n.X)
	case *ast.BasicLit:
		if n.Kind == token.STRING {
			s, err := strconv.Unquote(n.Value)
			if err != nil {
				die(n.Pos(), "bad string literal")
			}
			return value{k: kStr, s: s}
		}
		return value{k: kOpaque, s: n.Value}
	case *ast.Ident:
		switch n.Name {
		case "true":
			return value{k: kBool, b: true}
		case "false":
			return value{k: kBool, b: false}
		case "nil":
			return value{k: kSets, isNil: true}
		case "apiVersion1", "apiVersion2":
			return value{k: kVer, s: stringConst[n.Name]}
		}
		if v, ok := e.get(n.Name); ok {
			return v
		}
		if s, ok := stringConst[n.Name]; ok {
			return value{k: kStr, s: s}
		}
		return value{k: kOpaque, s: n.Name}
	case *ast.SelectorExpr:
		if id, ok := n.X.(*ast.Ident); ok && id.Name == cfgVar {
			return value{k: kCfg, s: n.Sel.Name}
		}
		return value{k: kOpaque, s: src(n)}
	case *ast.UnaryExpr:
		if n.Op == token.NOT {
			v := eval(e, n.X)
			if v.k == kCfg && v.s == "disableHeaderCheck" {
				return value{k: kNotNoHdr}
			}
			if v.k == kBool {
				return value{k: kBool, b: !v.b}
			}
		}
		return value{k: kOpaque, s: src(n)}
	case *ast.BinaryExpr:
		if n.Op == token.ADD {
			a, b := eval(e, n.X), eval(e, n.Y)
			if a.k == kStr && b.k == kStr {
				return value{k: kStr, s: a.s + b.s}
			}
			if (a.k == kStr || a.k == kSymStr) && (b.k == kStr || b.k == kSymStr) {
				return value{k: kSymStr}
			}
		}
		return value{k: kOpaque, s: src(n)}
	case *ast.CompositeLit:
		if src(n.Type) == "map[string][]string" {
			return evalSets(n)
		}
		return value{k: kOpaque, s: src(n)}
	case *ast.CallExpr:
		// a call that builds a handler: a middleware applied to a handler value, or an opaque
		// handler constructor (walletHandler(gateway), http.HandlerFunc(f), ...)
		if v, ok := evalWrap(e, n); ok {
			return v
		}
		return value{k: kHandler, label: src(n)}
	}
	return value{k: kOpaque, s: src(x)}
}

func evalSets(n *ast.CompositeLit) value {
	v := value{k: kSets, sets: map[string][]string{}}
	for _, el := range n.Elts {
		kv, ok := el.(*ast.KeyValueExpr)
		if !ok {
			die(el.Pos(), "methodAPISets element is not key: value")
		}
		sel, ok := kv.Key.(*ast.SelectorExpr)
		if !ok || src(sel.X) != "http" || methodConst[sel.Sel.Name] == "" {
			die(kv.Key.Pos(), "methodAPISets key %s is not a known http.MethodX constant", src(kv.Key))
		}
		m := methodConst[sel.Sel.Name]
		if _, dup := v.sets[m]; dup {
			die(kv.Key.Pos(), "duplicate method %s", m)
		}
		lst, ok := kv.Value.(*ast.CompositeLit)
		if !ok {
			die(kv.Value.Pos(), "api-set list is not a literal")
		}
		var names []string
		for _, a := range lst.Elts {
			id, ok := a.(*ast.Ident)
			if !ok {
				die(a.Pos(), "api set %s is not a constant identifier", src(a))
			}
			s, ok := stringConst[id.Name]
			if !ok || apiSetCtor[s] == "" {
				die(a.Pos(), "unknown api set constant %s", id.Name)
			}
			names = append(names, s)
		}
		v.sets[m] = names
		v.order = append(v.order, m)
	}
	return v
}

func expectCfg(e *env, x ast.Expr, field string, what string) {
	v := eval(e, x)
	if v.k != kCfg || v.s != field {
		die(x.Pos(), "%s: expected the configured %s.%s, found %s", what, cfgVar, field, src(x))
	}
}

// evalWrap recognises `M(args.., handler)` for the known middlewares and local handler-returning
// closures.  ver is checked by the caller when the route is emitted.
func evalWrap(e *env, c *ast.CallExpr) (value, bool) {
	fn := src(c.Fun)
	arg := func(i int) ast.Expr {
		if i >= len(c.Args) {
			die(c.Pos(), "%s: too few arguments", fn)
		}
		return c.Args[i]
	}
	hv := func(i int) value {
		v := eval(e, arg(i))
		if v.k != kHandler {
			// opaque identifiers (indexHandler, fs, handlerFunc) are handlers built elsewhere
			if v.k == kOpaque {
				return value{k: kHandler, label: v.s}
			}
			die(arg(i).Pos(), "%s: argument %d is not a handler (%s)", fn, i, src(arg(i)))
		}
		return v
	}
	wrap := func(h value, name string, verArg int) value {
		if verArg >= 0 {
			v := eval(e, arg(verArg))
			if v.k != kVer {
				die(arg(verArg).Pos(), "%s: API version argument is not apiVersion1/2: %s", fn, src(arg(verArg)))
			}
			name = name + "@" + v.s
		}
		n := value{k: kHandler, label: h.label, gate: h.gate}
		n.chain = append(append([]mwUse{}, h.chain...), mwUse{Name: name, Cond: "always"})
		return n
	}
	switch fn {
	case "wh.ElapsedHandler":
		if len(c.Args) != 2 {
			die(c.Pos(), "ElapsedHandler: want 2 args")
		}
		return wrap(hv(1), "elapsed", -1), true
	case "corsHandler.Handler":
		if len(c.Args) != 1 {
			die(c.Pos(), "corsHandler.Handler: want 1 arg")
		}
		return wrap(hv(0), "cors", -1), true
	case "CSRFCheck":
		if len(c.Args) != 3 {
			die(c.Pos(), "CSRFCheck: want 3 args")
		}
		expectCfg(e, arg(1), "disableCSRF", "CSRFCheck")
		return wrap(hv(2), "csrf", 0), true
	case "originRefererCheck", "hostCheck":
		if len(c.Args) != 4 {
			die(c.Pos(), "%s: want 4 args", fn)
		}
		expectCfg(e, arg(1), "host", fn)
		expectCfg(e, arg(2), "hostWhitelist", fn)
		return wrap(hv(3), fn, 0), true
	case "ContentTypeJSONRequired":
		if len(c.Args) != 1 {
			die(c.Pos(), "ContentTypeJSONRequired: want 1 arg")
		}
		return wrap(hv(0), "contentTypeJSON", -1), true
	case "basicAuth":
		if len(c.Args) != 5 {
			die(c.Pos(), "basicAuth: want 5 args")
		}
		expectCfg(e, arg(1), "username", "basicAuth")
		expectCfg(e, arg(2), "password", "basicAuth")
		return wrap(hv(4), "basicAuth", 0), true
	case "gziphandler.New":
		if len(c.Args) != 1 {
			die(c.Pos(), "gziphandler.New: want 1 arg")
		}
		return wrap(hv(0), "gzip", -1), true
	case "CSPHandler":
		// sets a response header, never refuses: not part of the access-control chain
		return hv(0), true
	case "forMethodAPISets":
		if len(c.Args) != 3 {
			die(c.Pos(), "forMethodAPISets: want 3 args")
		}
		sets := eval(e, arg(2))
		if sets.k != kSets || sets.isNil {
			die(arg(2).Pos(), "forMethodAPISets: methodsAPISets is not a literal map: %s", src(arg(2)))
		}
		if len(sets.sets) == 0 {
			die(arg(2).Pos(), "forMethodAPISets: empty methodsAPISets (the code panics at start-up)")
		}
		h := hv(1)
		if h.gate != nil {
			die(c.Pos(), "forMethodAPISets applied twice")
		}
		n := wrap(h, "gate", 0)
		n.gate = &sets
		return n, true
	}
	// local closure returning a handler (headerCheck)
	if id, ok := c.Fun.(*ast.Ident); ok {
		if cl, ok := closures[id.Name]; ok && cl.lit.Type.Results != nil && !registering[id.Name] {
			ret := call(e, cl, c)
			if ret == nil || ret.k != kHandler {
				die(c.Pos(), "closure %s does not return a handler", id.Name)
			}
			return *ret, true
		}
	}
	return value{}, false
}

// ---- statement interpretation ----------------------------------------------------------------

// call binds the arguments and interprets the closure body; returns the returned value if any.
func call(caller *env, cl *closure, c *ast.CallExpr) *value {
	ne := &env{vars: map[string]value{}}
	i := 0
	for _, f := range cl.lit.Type.Params.List {
		for _, nm := range f.Names {
			if i >= len(c.Args) {
				die(c.Pos(), "call of %s: too few arguments", cl.name)
			}
			ne.vars[nm.Name] = eval(caller, c.Args[i])
			i++
		}
	}
	if i != len(c.Args) {
		die(c.Pos(), "call of %s: argument count mismatch", cl.name)
	}
	return execBlock(ne, cl.lit.Body.List, "always")
}

func mentions(n ast.Node) bool {
	found := false
	ast.Inspect(n, func(x ast.Node) bool {
		if id, ok := x.(*ast.Ident); ok && (id.Name == muxVar || registering[id.Name]) {
			found = true
		}
		return !found
	})
	return found
}

func execBlock(e *env, stmts []ast.Stmt, cond string) *value {
	for _, st := range stmts {
		if r := execStmt(e, st, cond); r != nil {
			return r
		}
	}
	return nil
}

func setCond(before, after value, cond string) value {
	// mark the wrappings added inside a conditional block
	for i := len(before.chain); i < len(after.chain); i++ {
		if after.chain[i].Cond == "always" {
			after.chain[i].Cond = cond
		} else if cond != "always" && after.chain[i].Cond != cond {
			die(token.NoPos, "nested different conditions")
		}
	}
	return after
}

func execStmt(e *env, st ast.Stmt, cond string) *value {
	switch n := st.(type) {
	case *ast.AssignStmt:
		if len(n.Lhs) != 1 || len(n.Rhs) != 1 {
			if mentions(n) {
				die(n.Pos(), "unsupported assignment: %s", src(n))
			}
			return nil
		}
		id, ok := n.Lhs[0].(*ast.Ident)
		if !ok {
			if mentions(n) {
				die(n.Pos(), "unsupported assignment target: %s", src(n))
			}
			return nil
		}
		v := eval(e, n.Rhs[0])
		if old, ok := e.get(id.Name); ok && old.k == kHandler && v.k == kHandler && cond != "always" {
			v = setCond(old, v, cond)
		} else if cond != "always" && v.k == kHandler && len(v.chain) > 0 {
			die(n.Pos(), "conditional handler definition not understood: %s", src(n))
		}
		if n.Tok == token.DEFINE {
			e.vars[id.Name] = v
		} else {
			// assign to the scope that holds it
			for x := e; x != nil; x = x.parent {
				if _, ok := x.vars[id.Name]; ok {
					x.vars[id.Name] = v
					return nil
				}
			}
			e.vars[id.Name] = v
		}
		return nil
	case *ast.IfStmt:
		if n.Init != nil || n.Else != nil {
			if mentions(n) {
				die(n.Pos(), "if with init/else reaches route registration: %s", src(n.Cond))
			}
			return nil
		}
		c := evalCond(e, n.Cond)
		switch c {
		case "true":
			return execBlock(&env{vars: map[string]value{}, parent: e}, n.Body.List, cond)
		case "false":
			return nil
		case "unlessHeaderCheckDisabled":
			if cond != "always" {
				die(n.Pos(), "nested symbolic conditions")
			}
			return execBlock(&env{vars: map[string]value{}, parent: e}, n.Body.List, c)
		case "irrelevant":
			// a condition we cannot evaluate: only acceptable if the body cannot register or wrap
			if mentions(n.Body) || wrapsHandler(e, n.Body) {
				die(n.Pos(), "condition %q not understood but its body affects routing", src(n.Cond))
			}
			return nil
		}
		return nil
	case *ast.ExprStmt:
		c, ok := n.X.(*ast.CallExpr)
		if !ok {
			if mentions(n) {
				die(n.Pos(), "unsupported statement: %s", src(n))
			}
			return nil
		}
		fn := src(c.Fun)
		if fn == muxVar+".Handle" {
			if cond != "always" {
				die(n.Pos(), "conditional registration not supported here")
			}
			if len(c.Args) != 2 {
				die(c.Pos(), "mux.Handle: want 2 args")
			}
			emit(c, eval(e, c.Args[0]), eval(e, c.Args[1]))
			return nil
		}
		if strings.HasPrefix(fn, muxVar+".") {
			die(c.Pos(), "unsupported registration call %s", fn)
		}
		if id, ok := c.Fun.(*ast.Ident); ok {
			if cl, ok := closures[id.Name]; ok && registering[id.Name] {
				call(e, cl, c)
				return nil
			}
		}
		if mentions(n) {
			die(n.Pos(), "unsupported statement reaching registration: %s", src(n))
		}
		return nil
	case *ast.ReturnStmt:
		if len(n.Results) == 1 {
			v := eval(e, n.Results[0])
			return &v
		}
		if len(n.Results) == 0 {
			v := value{k: kOpaque}
			return &v
		}
		die(n.Pos(), "unsupported return")
	case *ast.SwitchStmt, *ast.RangeStmt, *ast.ForStmt, *ast.BlockStmt, *ast.DeclStmt, *ast.GoStmt, *ast.DeferStmt:
		if mentions(n) {
			die(n.Pos(), "unsupported statement kind reaching registration: %T", n)
		}
		return nil
	default:
		if mentions(n) {
			die(st.Pos(), "unsupported statement kind reaching registration: %T", n)
		}
	}
	return nil
}

func wrapsHandler(e *env, b *ast.BlockStmt) bool {
	found := false
	ast.Inspect(b, func(x ast.Node) bool {
		if as, ok := x.(*ast.AssignStmt); ok {
			for _, l := range as.Lhs {
				if id, ok := l.(*ast.Ident); ok {
					if v, ok := e.get(id.Name); ok && v.k == kHandler {
						found = true
					}
				}
			}
		}
		return !found
	})
	return found
}

func evalCond(e *env, x ast.Expr) string {
	switch n := x.(type) {
	case *ast.Ident:
		v := eval(e, n)
		switch v.k {
		case kBool:
			return strconv.FormatBool(v.b)
		case kNotNoHdr:
			return "unlessHeaderCheckDisabled"
		}
	case *ast.BinaryExpr:
		a, b := eval(e, n.X), eval(e, n.Y)
		if a.k == kSets && b.k == kSets && b.isNil && len(b.sets) == 0 {
			switch n.Op {
			case token.NEQ:
				return strconv.FormatBool(!a.isNil)
			case token.EQL:
				return strconv.FormatBool(a.isNil)
			}
		}
		if a.k == kVer && b.k == kVer {
			switch n.Op {
			case token.EQL:
				return strconv.FormatBool(a.s == b.s)
			case token.NEQ:
				return strconv.FormatBool(a.s != b.s)
			}
		}
	}
	return "irrelevant"
}

func emit(c *ast.CallExpr, path, h value) {
	if h.k != kHandler {
		die(c.Pos(), "mux.Handle: handler not understood: %s", src(c.Args[1]))
	}
	r := route{Handler: h.label, GUI: inGUI}
	switch path.k {
	case kStr:
		r.Path = path.s
		if inGUI {
			die(c.Pos(), "constant path registered under enableGUI")
		}
	case kSymStr, kOpaque:
		if !inGUI {
			die(c.Pos(), "route path is not a constant: %s", src(c.Args[0]))
		}
	default:
		die(c.Pos(), "route path not understood: %s", src(c.Args[0]))
	}
	// outermost first; all version-carrying middlewares must agree
	r.Hdr = "never"
	nHost, nOrigin := 0, 0
	for i := len(h.chain) - 1; i >= 0; i-- {
		m := h.chain[i]
		name, ver := m.Name, ""
		if j := strings.IndexByte(name, '@'); j >= 0 {
			name, ver = name[:j], name[j+1:]
		}
		if ver != "" {
			if r.Version == "" {
				r.Version = ver
			} else if r.Version != ver {
				die(c.Pos(), "route %q: middlewares built with different API versions (%s, %s)", r.Path, r.Version, ver)
			}
		}
		for _, prev := range r.Chain {
			if prev.Name == name {
				die(c.Pos(), "route %q: middleware %s applied twice", r.Path, name)
			}
		}
		r.Chain = append(r.Chain, mwUse{Name: name, Cond: m.Cond})
		switch name {
		case "csrf":
			if m.Cond != "always" {
				die(c.Pos(), "conditional CSRF check")
			}
			r.CSRF = true
		case "hostCheck":
			nHost++
			r.Hdr = m.Cond
		case "originRefererCheck":
			nOrigin++
			if nHost == 1 && r.Hdr != m.Cond {
				die(c.Pos(), "host and origin checks under different conditions")
			}
			r.Hdr = m.Cond
		case "gate":
			r.Gated = true
		default:
			if m.Cond != "always" {
				die(c.Pos(), "route %q: middleware %s is conditional on the header-check switch", r.Path, name)
			}
		}
	}
	if nHost != nOrigin {
		die(c.Pos(), "route %q: host check without origin check or vice versa", r.Path)
	}
	if r.Version == "" {
		die(c.Pos(), "route %q: no API version could be determined", r.Path)
	}
	if h.gate != nil {
		r.Methods = h.gate.sets
		r.MOrder = h.gate.order
	}
	if r.Gated != (h.gate != nil) {
		die(c.Pos(), "internal: gate bookkeeping")
	}
	for _, o := range routes {
		if o.Path == r.Path && !r.GUI && !o.GUI {
			die(c.Pos(), "route %q registered twice (net/http would panic)", r.Path)
		}
	}
	routes = append(routes, r)
}

// ---- top level -------------------------------------------------------------------------------

func topLevel(e *env, stmts []ast.Stmt) {
	for _, st := range stmts {
		switch n := st.(type) {
		case *ast.AssignStmt:
			if len(n.Lhs) == 1 && len(n.Rhs) == 1 {
				id, _ := n.Lhs[0].(*ast.Ident)
				if lit, ok := n.Rhs[0].(*ast.FuncLit); ok && id != nil {
					if n.Tok != token.DEFINE {
						die(n.Pos(), "closure %s re-assigned", id.Name)
					}
					if _, dup := closures[id.Name]; dup {
						die(n.Pos(), "closure %s defined twice", id.Name)
					}
					closures[id.Name] = &closure{name: id.Name, lit: lit}
					// does it reach registration?
					if mentions(lit.Body) {
						registering[id.Name] = true
					}
					continue
				}
				if id != nil && src(n.Rhs[0]) == "http.NewServeMux()" {
					muxVar = id.Name
					continue
				}
				if id != nil && id.Name == "corsHandler" {
					corsOptions(n.Rhs[0])
					continue
				}
			}
			if mentions(n) {
				die(n.Pos(), "unsupported top-level assignment: %s", src(n))
			}
			// handler variables (indexHandler, fs) are opaque handlers
		case *ast.IfStmt:
			if src(n.Cond) == cfgVar+".enableGUI" && n.Else == nil && n.Init == nil {
				if inGUI {
					die(n.Pos(), "nested enableGUI")
				}
				inGUI = true
				guiBlock(e, n.Body.List)
				inGUI = false
				continue
			}
			if mentions(n) {
				die(n.Pos(), "top-level conditional (%s) reaches route registration", src(n.Cond))
			}
		case *ast.ExprStmt:
			execStmt(e, n, "always")
		case *ast.RangeStmt, *ast.ForStmt:
			if mentions(n) {
				die(n.Pos(), "loop reaches route registration outside the enableGUI block")
			}
		case *ast.ReturnStmt:
			if len(n.Results) != 1 || src(n.Results[0]) != muxVar {
				die(n.Pos(), "newServerMux does not return the mux it built")
			}
		default:
			if mentions(n) {
				die(st.Pos(), "unsupported top-level statement %T", n)
			}
		}
	}
}

// guiBlock: statements under `if c.enableGUI`.  The only registration accepted is a call inside a
// `for ... range fileInfos` loop (one route per static file, path not known statically).
func guiBlock(e *env, stmts []ast.Stmt) {
	for _, st := range stmts {
		switch n := st.(type) {
		case *ast.RangeStmt:
			if !mentions(n) {
				continue
			}
			le := &env{vars: map[string]value{}, parent: e}
			for _, s := range n.Body.List {
				switch b := s.(type) {
				case *ast.AssignStmt:
					if len(b.Lhs) == 1 {
						if id, ok := b.Lhs[0].(*ast.Ident); ok {
							le.vars[id.Name] = value{k: kSymStr}
							continue
						}
					}
					if mentions(b) {
						die(b.Pos(), "unsupported statement in GUI loop")
					}
				case *ast.IfStmt:
					if mentions(b) {
						die(b.Pos(), "conditional registration in GUI loop")
					}
				case *ast.ExprStmt:
					execStmt(le, b, "always")
				default:
					if mentions(b) {
						die(b.Pos(), "unsupported statement in GUI loop")
					}
				}
			}
		default:
			if mentions(n) {
				die(st.Pos(), "registration under enableGUI outside the file loop")
			}
		}
	}
}

func corsOptions(x ast.Expr) {
	c, ok := x.(*ast.CallExpr)
	if !ok || src(c.Fun) != "cors.New" || len(c.Args) != 1 {
		die(x.Pos(), "corsHandler is not cors.New(cors.Options{...})")
	}
	lit, ok := c.Args[0].(*ast.CompositeLit)
	if !ok {
		die(x.Pos(), "cors.New argument is not a literal")
	}
	seen := false
	for _, el := range lit.Elts {
		kv, ok := el.(*ast.KeyValueExpr)
		if !ok {
			die(el.Pos(), "cors option without key")
		}
		if src(kv.Key) == "OptionsPassthrough" {
			v := src(kv.Value)
			if v != "true" && v != "false" {
				die(kv.Pos(), "OptionsPassthrough is not a literal")
			}
			corsPass = v
			seen = true
		}
	}
	_ = seen
}

// ---- output ----------------------------------------------------------------------------------

type site struct {
	File string `json:"file"`
	From int    `json:"from"`
	To   int    `json:"to"`
}

func leanStr(s string) string { return strconv.Quote(s) }

func leanRoute(r route, pathExpr string) string {
	var mws []string
	for _, m := range r.Chain {
		c := ".always"
		if m.Cond == "unlessHeaderCheckDisabled" {
			c = ".unlessHeaderCheckDisabled"
		}
		mw := "." + m.Name
		if m.Name == "gate" {
			var ms []string
			for _, meth := range r.MOrder {
				var ss []string
				for _, s := range r.Methods[meth] {
					ss = append(ss, "."+apiSetCtor[s])
				}
				ms = append(ms, fmt.Sprintf("(.%s, [%s])", meth, strings.Join(ss, ", ")))
			}
			mw = "(.gate [" + strings.Join(ms, ", ") + "])"
		}
		mws = append(mws, fmt.Sprintf("⟨%s, %s⟩", mw, c))
	}
	return fmt.Sprintf("{ path := %s, ver := .%s, chain := [%s] }", pathExpr, r.Version, strings.Join(mws, ", "))
}

func main() {
	repo := flag.String("repo", "/repo", "repository root")
	out := flag.String("out", "/verif/lean", "lean project root")
	flag.Parse()
	file := filepath.Join(*repo, "src/api/http.go")
	f, err := parser.ParseFile(fset, file, nil, 0)
	if err != nil {
		die(token.NoPos, "parse: %v", err)
	}
	var fn *ast.FuncDecl
	for _, d := range f.Decls {
		switch n := d.(type) {
		case *ast.GenDecl:
			if n.Tok != token.CONST {
				continue
			}
			for _, sp := range n.Specs {
				vs := sp.(*ast.ValueSpec)
				for i, nm := range vs.Names {
					if i < len(vs.Values) {
						if bl, ok := vs.Values[i].(*ast.BasicLit); ok && bl.Kind == token.STRING {
							s, _ := strconv.Unquote(bl.Value)
							stringConst[nm.Name] = s
						}
					}
				}
			}
		case *ast.FuncDecl:
			if n.Name.Name == "newServerMux" && n.Recv == nil {
				fn = n
			}
		}
	}
	if fn == nil {
		die(token.NoPos, "newServerMux not found in %s", file)
	}
	if stringConst["apiVersion1"] != "v1" || stringConst["apiVersion2"] != "v2" {
		die(token.NoPos, "apiVersion1/apiVersion2 constants are not \"v1\"/\"v2\"")
	}
	if fn.Type.Params == nil || len(fn.Type.Params.List) < 1 || len(fn.Type.Params.List[0].Names) != 1 ||
		src(fn.Type.Params.List[0].Type) != "muxConfig" {
		die(fn.Pos(), "newServerMux: first parameter is not a muxConfig")
	}
	cfgVar = fn.Type.Params.List[0].Names[0].Name
	// pass 1: find the mux variable and closures (so that `registering` is complete, iterate to fixpoint)
	for _, st := range fn.Body.List {
		if as, ok := st.(*ast.AssignStmt); ok && len(as.Rhs) == 1 && src(as.Rhs[0]) == "http.NewServeMux()" {
			muxVar = as.Lhs[0].(*ast.Ident).Name
		}
	}
	if muxVar == "" {
		die(fn.Pos(), "no `mux := http.NewServeMux()`")
	}
	for changed := true; changed; {
		changed = false
		for _, st := range fn.Body.List {
			as, ok := st.(*ast.AssignStmt)
			if !ok || len(as.Lhs) != 1 || len(as.Rhs) != 1 {
				continue
			}
			id, _ := as.Lhs[0].(*ast.Ident)
			lit, ok := as.Rhs[0].(*ast.FuncLit)
			if !ok || id == nil {
				continue
			}
			if !registering[id.Name] && mentions(lit.Body) {
				registering[id.Name] = true
				changed = true
			}
		}
	}
	// closures nested in other functions of the file are out of reach by construction; a second
	// function that touches a ServeMux would be a second registration site:
	for _, d := range f.Decls {
		if fd, ok := d.(*ast.FuncDecl); ok && fd != fn && fd.Body != nil {
			ast.Inspect(fd.Body, func(x ast.Node) bool {
				if c, ok := x.(*ast.CallExpr); ok {
					s := src(c.Fun)
					if strings.HasSuffix(s, ".Handle") || strings.HasSuffix(s, ".HandleFunc") {
						die(c.Pos(), "route registration outside newServerMux: %s", s)
					}
				}
				return true
			})
		}
	}
	topLevel(&env{vars: map[string]value{}}, fn.Body.List)
	if len(routes) == 0 {
		die(fn.Pos(), "no routes found")
	}

	// ---- Lean ----
	var b strings.Builder
	b.WriteString("/- GENERATED by tools/extract/routes from src/api/http.go (newServerMux). Do not edit. -/\n")
	b.WriteString("import Sky.C27.Model\nnamespace Sky.Gen.Routes\nopen Sky.C27\n\n")
	b.WriteString("/-- cors.Options.OptionsPassthrough as written in newServerMux -/\n")
	b.WriteString("def corsOptionsPassthrough : Bool := " + corsPass + "\n\n")
	b.WriteString("/-- every statically registered route: chain is listed OUTERMOST middleware first -/\n")
	b.WriteString("def routes : List Route := [\n")
	first := true
	var gui []route
	for _, r := range routes {
		if r.GUI {
			gui = append(gui, r)
			continue
		}
		if !first {
			b.WriteString(",\n")
		}
		first = false
		b.WriteString("  " + leanRoute(r, leanStr(r.Path)))
	}
	b.WriteString("\n]\n\n")
	b.WriteString("/-- routes registered once per static file when the GUI is enabled (path known only at start-up) -/\n")
	b.WriteString("def guiRoutes (p : String) : List Route := [")
	for i, r := range gui {
		if i > 0 {
			b.WriteString(", ")
		}
		b.WriteString(leanRoute(r, "p"))
	}
	b.WriteString("]\n\nend Sky.Gen.Routes\n")
	writeIfChanged(filepath.Join(*out, "Sky/Gen/Routes.lean"), []byte(b.String()))

	// ---- source sites of the middlewares (the harness attributes a response to the middleware whose
	// source range contains the frame that wrote it) ----
	sites := map[string]site{}
	if cl, ok := closures["forMethodAPISets"]; ok {
		sites["gate"] = site{"src/api/http.go", fset.Position(cl.lit.Pos()).Line, fset.Position(cl.lit.End()).Line}
	} else {
		die(fn.Pos(), "closure forMethodAPISets not found")
	}
	want := map[string]string{"basicAuth": "basicAuth", "hostCheck": "host", "originRefererCheck": "origin",
		"ContentTypeJSONRequired": "contentType", "CSRFCheck": "csrf"}
	for _, rel := range []string{"src/api/middleware.go", "src/api/csrf.go"} {
		mf, err := parser.ParseFile(fset, filepath.Join(*repo, rel), nil, 0)
		if err != nil {
			die(token.NoPos, "parse %s: %v", rel, err)
		}
		for _, d := range mf.Decls {
			if fd, ok := d.(*ast.FuncDecl); ok && fd.Recv == nil && want[fd.Name.Name] != "" {
				sites[want[fd.Name.Name]] = site{rel, fset.Position(fd.Pos()).Line, fset.Position(fd.End()).Line}
			}
		}
	}
	for _, st := range want {
		if _, ok := sites[st]; !ok {
			die(token.NoPos, "middleware function for stage %s not found in middleware.go/csrf.go", st)
		}
	}

	// ---- JSON for the harnesses ----
	js, _ := json.MarshalIndent(map[string]interface{}{"routes": routes, "cors_options_passthrough": corsPass == "true", "sites": sites}, "", " ")
	writeIfChanged(filepath.Join(*out, "Sky/Gen/routes.json"), append(js, '\n'))
	fmt.Printf("routes: %d routes (%d GUI templates) from %s\n", len(routes)-len(gui), len(gui), file)
}

func writeIfChanged(path string, data []byte) {
	if old, err := os.ReadFile(path); err == nil && bytes.Equal(old, data) {
		return
	}
	if err := os.MkdirAll(filepath.Dir(path), 0o755); err != nil {
		die(token.NoPos, "%v", err)
	}
	if err := os.WriteFile(path, data, 0o644); err != nil {
		die(token.NoPos, "%v", err)
	}
}
