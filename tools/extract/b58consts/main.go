// b58consts: tie "T" for C15. Reads src/cipher/base58/base58.go and src/cipher/address.go with go/ast and
// emits lean/Sky/Gen/B58Consts.lean:
//   * the alphabet string literal passed to NewAlphabet for btcAlphabet,
//   * the numerator/denominator/offset of the encoder's buffer size `(binsz-zcount)*N/D + K`,
//   * the radix used by the encoder loop (`carry % R`, `carry /= R`) and the decoder loop (`*R`),
//   * the three length constants of AddressFromBytes (`len(b) != A+B+C`).
// Any other source shape is a hard error (exit 3) and leaves a Lean file that does not elaborate.
//
// usage: b58consts -repo /repo -out /verif/lean
package main

import (
	"flag"
	"fmt"
	"go/ast"
	"go/parser"
	"go/token"
	"os"
	"path/filepath"
	"strconv"
)

type fail struct{ msg string }

func die(f string, a ...interface{}) { panic(fail{fmt.Sprintf(f, a...)}) }

func intLit(e ast.Expr) (int, bool) {
	if p, ok := e.(*ast.ParenExpr); ok {
		return intLit(p.X)
	}
	b, ok := e.(*ast.BasicLit)
	if !ok || b.Kind != token.INT {
		return 0, false
	}
	v, err := strconv.ParseInt(b.Value, 0, 64)
	return int(v), err == nil
}

func bin(e ast.Expr, op token.Token) (*ast.BinaryExpr, bool) {
	if p, ok := e.(*ast.ParenExpr); ok {
		return bin(p.X, op)
	}
	b, ok := e.(*ast.BinaryExpr)
	return b, ok && b.Op == op
}

func funcDecl(f *ast.File, name string) *ast.FuncDecl {
	for _, d := range f.Decls {
		if fd, ok := d.(*ast.FuncDecl); ok && fd.Name.Name == name && fd.Recv == nil {
			return fd
		}
	}
	die("function %s not found", name)
	return nil
}

func extract(repo string) string {
	fset := token.NewFileSet()
	b58, err := parser.ParseFile(fset, filepath.Join(repo, "src/cipher/base58/base58.go"), nil, 0)
	if err != nil {
		die("parse base58.go: %v", err)
	}
	// --- alphabet
	alphabet := ""
	for _, d := range b58.Decls {
		gd, ok := d.(*ast.GenDecl)
		if !ok || gd.Tok != token.VAR {
			continue
		}
		for _, s := range gd.Specs {
			vs := s.(*ast.ValueSpec)
			for i, n := range vs.Names {
				if n.Name != "btcAlphabet" || i >= len(vs.Values) {
					continue
				}
				call, ok := vs.Values[i].(*ast.CallExpr)
				if !ok || len(call.Args) != 1 {
					die("btcAlphabet is not NewAlphabet(<literal>)")
				}
				if id, ok := call.Fun.(*ast.Ident); !ok || id.Name != "NewAlphabet" {
					die("btcAlphabet is not built by NewAlphabet")
				}
				lit, ok := call.Args[0].(*ast.BasicLit)
				if !ok || lit.Kind != token.STRING {
					die("btcAlphabet argument is not a string literal")
				}
				alphabet, err = strconv.Unquote(lit.Value)
				if err != nil {
					die("alphabet literal: %v", err)
				}
			}
		}
	}
	if alphabet == "" {
		die("btcAlphabet not found")
	}
	for _, fn := range []string{"Encode", "Decode"} {
		// Encode/Decode must delegate to the fast functions with btcAlphabet
		fd := funcDecl(b58, fn)
		okShape := false
		if len(fd.Body.List) == 1 {
			if rs, ok := fd.Body.List[0].(*ast.ReturnStmt); ok && len(rs.Results) == 1 {
				if c, ok := rs.Results[0].(*ast.CallExpr); ok && len(c.Args) == 2 {
					if id, ok := c.Args[1].(*ast.Ident); ok && id.Name == "btcAlphabet" {
						if f, ok := c.Fun.(*ast.Ident); ok && f.Name == "fastBase58"+fn[:len(fn)-1]+"ingAlphabet" {
							okShape = true
						}
					}
				}
			}
		}
		if !okShape {
			die("%s is not `return fastBase58%singAlphabet(x, btcAlphabet)`", fn, fn[:len(fn)-1])
		}
	}
	// --- encoder: size := (binsz-zcount)*N/D + K ; carry % R ; carry /= R ; buf[j] << S
	enc := funcDecl(b58, "fastBase58EncodingAlphabet")
	num, den, off, encMod, encDiv, encShift := -1, -1, -1, -1, -1, -1
	ast.Inspect(enc, func(n ast.Node) bool {
		switch s := n.(type) {
		case *ast.AssignStmt:
			if len(s.Lhs) == 1 && len(s.Rhs) == 1 {
				if id, ok := s.Lhs[0].(*ast.Ident); ok && id.Name == "size" && s.Tok == token.DEFINE {
					add, ok := bin(s.Rhs[0], token.ADD)
					if !ok {
						die("size: not a sum")
					}
					k, ok := intLit(add.Y)
					if !ok {
						die("size: offset not a literal")
					}
					quo, ok := bin(add.X, token.QUO)
					if !ok {
						die("size: not a quotient")
					}
					d, ok := intLit(quo.Y)
					if !ok {
						die("size: denominator")
					}
					mul, ok := bin(quo.X, token.MUL)
					if !ok {
						die("size: not a product")
					}
					nn, ok := intLit(mul.Y)
					if !ok {
						die("size: numerator")
					}
					sub, ok := bin(mul.X, token.SUB)
					if !ok {
						die("size: base is not binsz-zcount")
					}
					a, ok1 := sub.X.(*ast.Ident)
					b, ok2 := sub.Y.(*ast.Ident)
					if !ok1 || !ok2 || a.Name != "binsz" || b.Name != "zcount" {
						die("size: base is not binsz-zcount")
					}
					num, den, off = nn, d, k
				}
				if id, ok := s.Lhs[0].(*ast.Ident); ok && id.Name == "carry" && s.Tok == token.QUO_ASSIGN {
					if v, ok := intLit(s.Rhs[0]); ok {
						encDiv = v
					}
				}
				if id, ok := s.Lhs[0].(*ast.Ident); ok && id.Name == "carry" && s.Tok == token.ADD_ASSIGN {
					if sh, ok := bin(s.Rhs[0], token.SHL); ok {
						if v, ok := intLit(sh.Y); ok {
							encShift = v
						}
					}
				}
			}
		case *ast.BinaryExpr:
			if s.Op == token.REM {
				if id, ok := s.X.(*ast.Ident); ok && id.Name == "carry" {
					if v, ok := intLit(s.Y); ok {
						encMod = v
					}
				}
			}
		}
		return true
	})
	if num < 0 || encMod < 0 || encDiv < 0 || encShift < 0 {
		die("encoder shape not recognised (size=%d/%d+%d mod=%d div=%d shift=%d)", num, den, off, encMod, encDiv, encShift)
	}
	// --- decoder: t = uint64(outi[j])*R + c
	dec := funcDecl(b58, "fastBase58DecodingAlphabet")
	decMul := -1
	ast.Inspect(dec, func(n ast.Node) bool {
		if s, ok := n.(*ast.AssignStmt); ok && len(s.Lhs) == 1 && len(s.Rhs) == 1 {
			if id, ok := s.Lhs[0].(*ast.Ident); ok && id.Name == "t" {
				if add, ok := bin(s.Rhs[0], token.ADD); ok {
					if mul, ok := bin(add.X, token.MUL); ok {
						if v, ok := intLit(mul.Y); ok {
							decMul = v
						}
					}
				}
			}
		}
		return true
	})
	if decMul < 0 {
		die("decoder multiply-add shape not recognised")
	}
	// --- address.go: len(b) != A+B+C
	adr, err := parser.ParseFile(fset, filepath.Join(repo, "src/cipher/address.go"), nil, 0)
	if err != nil {
		die("parse address.go: %v", err)
	}
	afb := funcDecl(adr, "AddressFromBytes")
	la, lb, lc := -1, -1, -1
	ast.Inspect(afb, func(n ast.Node) bool {
		if ne, ok := n.(*ast.BinaryExpr); ok && ne.Op == token.NEQ && la < 0 {
			if call, ok := ne.X.(*ast.CallExpr); ok {
				if id, ok := call.Fun.(*ast.Ident); ok && id.Name == "len" {
					if s2, ok := bin(ne.Y, token.ADD); ok {
						if s1, ok := bin(s2.X, token.ADD); ok {
							a, ok1 := intLit(s1.X)
							b, ok2 := intLit(s1.Y)
							c, ok3 := intLit(s2.Y)
							if ok1 && ok2 && ok3 {
								la, lb, lc = a, b, c
							}
						}
					}
				}
			}
		}
		return true
	})
	if la < 0 {
		die("AddressFromBytes length test `len(b) != A+B+C` not found")
	}
	src := "-- GENERATED by tools/extract/b58consts from src/cipher/base58/base58.go and src/cipher/address.go. Do not edit.\n"
	src += "namespace Sky.Gen.B58Consts\n\n"
	src += "/-- the literal passed to NewAlphabet for btcAlphabet, as byte values -/\n"
	src += "def alphabet : List Nat := ["
	for i := 0; i < len(alphabet); i++ {
		if i > 0 {
			src += ", "
		}
		src += strconv.Itoa(int(alphabet[i]))
	}
	src += "]\n"
	src += fmt.Sprintf("def alphabetString : String := %s\n", strconv.Quote(alphabet))
	src += fmt.Sprintf("def encSizeNum : Nat := %d\ndef encSizeDen : Nat := %d\ndef encSizeOff : Nat := %d\n", num, den, off)
	src += fmt.Sprintf("def encRadixMod : Nat := %d\ndef encRadixDiv : Nat := %d\ndef encShift : Nat := %d\ndef decRadix : Nat := %d\n", encMod, encDiv, encShift, decMul)
	src += fmt.Sprintf("def addrKeyLen : Nat := %d\ndef addrVersionLen : Nat := %d\ndef addrChecksumLen : Nat := %d\n", la, lb, lc)
	src += "\nend Sky.Gen.B58Consts\n"
	return src
}

func main() {
	repo := flag.String("repo", "/repo", "repository root")
	out := flag.String("out", "/verif/lean", "lean project root")
	flag.Parse()
	path := filepath.Join(*out, "Sky/Gen/B58Consts.lean")
	rc := 0
	var src string
	func() {
		defer func() {
			if r := recover(); r != nil {
				if f, ok := r.(fail); ok {
					fmt.Fprintln(os.Stderr, "b58consts:", f.msg)
					src = "-- TRANSLATION FAILED\n#eval (show Nat from \"translation failed: Sky.Gen.B58Consts\")\n"
					rc = 3
					return
				}
				panic(r)
			}
		}()
		src = extract(*repo)
	}()
	old, _ := os.ReadFile(path)
	if string(old) != src {
		os.MkdirAll(filepath.Dir(path), 0o755)
		if err := os.WriteFile(path, []byte(src), 0o644); err != nil {
			fmt.Fprintln(os.Stderr, err)
			os.Exit(2)
		}
	}
	os.Exit(rc)
}
