#!/usr/bin/env python3
"""ldiff.py ops.tsv drv.out [n] — show field-level differences for the first n mismatching ledger lines"""
import sys
ops=[l.rstrip('\n').split('\t') for l in open(sys.argv[1])]
outs=[l.rstrip('\n').split('\t') for l in open(sys.argv[2])]
n=int(sys.argv[3]) if len(sys.argv)>3 else 5
shown=0
def fields(s):
    d={}
    for i,sec in enumerate(s.split(' ')):
        if sec[:1]=='D':
            for kvp in sec[1:].split(';'):
                k,_,v=kvp.partition('=')
                d['D%d.%s'%(i,k)]=v
        else:
            d['S%d'%i]=sec
    return d
for i,(o,r) in enumerate(zip(ops,outs)):
    if r[0]=='=': continue
    op=o[0]; impl=o[1]; model=r[1]
    print('--- line',i+1,op[:80], '| verdict', r[2] if len(r)>2 else '')
    fi,fm=fields(impl),fields(model.split(' #props:')[0])
    print('   props:', model.split(' #props:')[1] if ' #props:' in model else '-')
    for k in sorted(set(fi)|set(fm)):
        if fi.get(k)!=fm.get(k):
            a,b=fi.get(k,'<none>'),fm.get(k,'<none>')
            if ',' in a or ',' in b:
                sa,sb=set(a.split(',')),set(b.split(','))
                print('   %s impl-only=%s model-only=%s'%(k,sorted(sa-sb)[:6],sorted(sb-sa)[:6]))
            else:
                print('   %s impl=%s model=%s'%(k,a[:150],b[:150]))
    shown+=1
    if shown>=n: break
