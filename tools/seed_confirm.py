#!/usr/bin/env python3
"""seed_confirm.py <seed-worktree> <id> <check> [<check>...]
Confirms a seeded change independently (fresh scratch worktree of /repo HEAD): patch applies, builds, the
demonstration fails with it and passes without it, the touched packages' existing tests pass with it;
then runs the named checks against the patched tree.  Stores patch, demo and meta under /verif/seeded/<id>/."""
import json, os, shutil, subprocess, sys, re
src, sid, checks = sys.argv[1], sys.argv[2], sys.argv[3:]
ENV = dict(os.environ, GOFLAGS="-mod=mod", GOPROXY="off", GOSUMDB="off", GOTOOLCHAIN="local")
dst = "/verif/seeded/" + sid
os.makedirs(dst, exist_ok=True)
shutil.copy(src + "/SEED/patch.diff", dst + "/patch.diff")
if os.path.isdir(dst + "/demo"):
    shutil.rmtree(dst + "/demo")
shutil.copytree(src + "/SEED/demo", dst + "/demo")
meta = json.load(open(src + "/SEED/meta.json"))
wt = "/tmp/wt-confirm-" + sid
def sh(cmd, cwd=wt, timeout=1800):
    p = subprocess.run(cmd, cwd=cwd, env=ENV, shell=True, capture_output=True, text=True, timeout=timeout)
    return p.returncode, (p.stdout + p.stderr)[-1500:]
subprocess.run(["git", "-C", "/repo", "worktree", "remove", "--force", wt], capture_output=True)
subprocess.run(["git", "-C", "/repo", "worktree", "add", "-q", wt, "HEAD"], check=True)
res = {}
try:
    # place demo files: the seed worktree has them applied; copy every untracked/modified non-SEED file that is not in the patch
    rc, out = sh("git status --porcelain", cwd=src)
    patched = set(re.findall(r"^\+\+\+ b/(\S+)", open(dst + "/patch.diff").read(), flags=re.M))
    demo_files = []
    for line in out.splitlines():
        path = line[3:].strip()
        if path.startswith("SEED") or path in patched:
            continue
        if os.path.isdir(os.path.join(src, path)):
            for root, _, files in os.walk(os.path.join(src, path)):
                for f in files:
                    demo_files.append(os.path.relpath(os.path.join(root, f), src))
        else:
            demo_files.append(path)
    for f in demo_files:
        os.makedirs(os.path.dirname(os.path.join(wt, f)) or wt, exist_ok=True)
        shutil.copy(os.path.join(src, f), os.path.join(wt, f))
    res["demo_files"] = demo_files
    demo = meta["demo_cmd"].replace(src, wt)
    demo = re.sub(r"export GOFLAGS[^&;]*(&&|;)", "", demo)
    rc0, o0 = sh(demo)
    res["demo_without_change"] = "pass" if rc0 == 0 else "FAIL: " + o0[-400:]
    rc, o = sh("git apply " + dst + "/patch.diff")
    res["patch_applies"] = rc == 0 or o
    rc, o = sh("go build ./... ")
    res["builds"] = rc == 0 or o[-400:]
    rc1, o1 = sh(demo)
    res["demo_with_change"] = "fail (as required)" if rc1 != 0 else "PASSES (not a demonstration)"
    pkgs = sorted({"./" + os.path.dirname(p) for p in patched})
    tests = {}
    for pk in pkgs:
        skip = "TestErrMissingSignatureRecreateDB|Seed|TestC[0-9][0-9]|C17$|TestReadLoopEveryChunking|TestCrashDuringSave|TestIsWritable|TestServiceNewAddresses|TestPexAddPeers"
        rc, o = sh("go test -count=1 -skip '%s' %s 2>&1 | tail -15" % (skip, pk), timeout=3000)
        tests[pk] = "ok" if ("FAIL" not in o) else o[-600:]
    res["existing_tests_with_change"] = tests
    # remove the demo before running our checks (they must not depend on it)
    for f in demo_files:
        try: os.remove(os.path.join(wt, f))
        except OSError: pass
    caught = {}
    for c in checks:
        p = subprocess.run(["./check", c], cwd="/verif", env=dict(os.environ, VERIF_REPO=wt), capture_output=True, text=True)
        lines = [l for l in p.stdout.splitlines() if l.startswith(("VIOLATION", "OK", "CHECK-ERROR", "KNOWN"))]
        caught[c] = {"exit": p.returncode, "lines": lines[:3]}
    res["checks"] = caught
finally:
    subprocess.run(["git", "-C", "/repo", "worktree", "remove", "--force", wt], capture_output=True)
    subprocess.run("git -C /repo checkout -- src/visor/testdata/data.db.nosig", shell=True, capture_output=True)
meta["confirmation"] = res
meta["confirmed"] = (res.get("demo_without_change") == "pass" and str(res.get("demo_with_change", "")).startswith("fail")
                     and all(v == "ok" for v in res.get("existing_tests_with_change", {}).values()))
json.dump(meta, open(dst + "/meta.json", "w"), indent=1)
print(json.dumps({"id": sid, "confirmed": meta["confirmed"], "res": res}, indent=1)[:3000])
