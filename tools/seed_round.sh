#!/bin/bash
# seed_round.sh <suffix> <Cnn>... : create scratch worktrees /tmp/seed-cnn<suffix> and prompts /tmp/prompts/cnn<suffix>.txt
# (the prompt tells the sub-agent which earlier seeded sites to avoid; it contains nothing else from /verif)
suffix=$1; shift
mkdir -p /tmp/prompts
for P in "$@"; do
  p=$(echo $P | tr A-Z a-z)
  git -C /repo worktree add -q --detach /tmp/seed-${p}${suffix} HEAD || continue
  avoid=$(python3 - $P <<'PY'
import json,glob,sys
out=[]
for d in sorted(glob.glob('/verif/seeded/%s-*'%sys.argv[1])):
    m=json.load(open(d+'/meta.json'))
    out.append((', '.join(m.get('files_changed',[]))+': '+m.get('summary','')[:220]).replace('\n',' '))
print(' || '.join(out))
PY
)
  python3 /verif/tools/seed_prompt.py $P "$suffix" "$avoid" > /tmp/prompts/${p}${suffix}.txt
  echo "prepared $P$suffix"
done
