#!/usr/bin/env python3
"""Regenerates the table of seeded changes in DESIGN.md (between the SEED-TABLE markers) from seeded/*/meta.json."""
import json, glob, os, re
STRENGTHENED = {
 "C03-a": "after adding the C03 block predicate on agreeing lines (hours created by an accepted block)",
 "C08-a": "after the dbutil commit hook (one snapshot per commit) made history-before-block crash states visible",
 "C10-a": "after the stale-driver fallback in vlib (generated module no longer elaborated) and recid families in the generator",
 "C11-a": "after top-of-range hours cases were added to the generator",
 "C33-a": "after out-of-order / duplicated give messages were added to the sync profile",
 "C12-a": "after the completeness oracle of ChooseSpends was strengthened",
 "C17-a": "after secret-key consistency of bip44 entries was added to the dump",
 "C14-a": "after crafted tiny-r signatures with recovery ids 2/3 were added (also reported by C10)",
 "C16-a": "after a reference BIP32 derivation in the harness selected children whose key starts with a zero byte",
 "C20-a": "after the crash specification was applied to every traced save (first-time creation scenarios)",
 "C22-a": "after frames were observed the way the slowest legal consumer of the 32-slot channel sees them",
 "C32-a": "after the errC capacity facts/theorem and the busy-connection shutdown workloads were added",
 "C01-b": "after coins-wrap kinds and the single-defect block sweep joined the ledger generator (C09: after mid-list wrap outputs)",
 "C03-b": "C31 as first built; C03 after accepted blocks whose input hours overflow were tagged",
 "C05-b": "after tie histories (13-19 pending transactions of equal fee priority, two rounds) were added",
 "C08-b": "after the start-up-rebuild scenario on a 1000+ block chain, crashed at every commit boundary, was added",
 "C13-b": "after wallet.CreateTransactionSigned with interleaved input ownership was driven and `created_sigs_verify` stated",
 "C17-b": "after failing transaction finders (scanfail) were added to the op generator",
 "C18-b": "after purity checks (the locked wallet is unchanged by Unlock/Clone use) and alias ops were added",
 "C27-b": "after the byte-level token spec (sig = HMAC(key,payload)) and spliced/re-dated forged tokens were added",
 "C33-b": "C04 as first built; C33 after substituted-body forgeries joined the sync profile",
 "C31-b": "as first built (C03 reports the broken theorem only)",
 "C14-b": "after an exhaustive small-multiple grid through ECmult, direct XYZ.Add cases and crafted signatures with small related s/r, -m/r were added (also C10)",
 "C28-b": "after decodable but structurally inconsistent transactions over real wallet unspents (33 mutations x 4 bases) were sent to the sign/verify/inject endpoints",
 "C03-c": "after legacy-exception histories (outputs with base hours just below 2^64 spent behind ordinary inputs, after an aging block) were added",
 "C10-c": "after zero / extreme values of the length prefix were added to the transaction-level mutations (C10, C09, ledger)",
 "C13-c": "after Visor.WalletSignTransaction was driven on a real visor (vsign, resubmission must be refused)",
 "C17-c": "after two-account bip44 wallets (per-account generate/scan) were added",
 "C18-c": "after wallets were extended on both chains while locked and compared with a never-locked twin after Unlock",
 "C19-c": "after read-only service calls joined the generator and raw serialised bytes of memory vs reload were compared",
 "C22-c": "after streams with a bad length prefix were run through the real readLoop with reads ending right after the prefix",
 "C26-c": "after retry storms (9-13 failed attempts on one, possibly trusted, peer followed by the clean-up tick) were added",
 "C33-c": "after the pattern 'genuine block too early, then a forged copy at the right moment' joined the sync profile",
 "C02-d": "C01 as first built (shared correspondence); C02 reliably after the sweep over the 3x3 positions of a shared input",
 "C03-d": "after the 257-output hours-overflow kind and the single-defect transaction at pool admission were added",
 "C04-d": "C33 as first built; C04 after the lagging-follower pattern (second block early, forged copy before the genuine one)",
 "C05-d": "after mkblock ran the publisher's own createBlock (new verif hook visor.VerifCreateBlock) instead of CreateBlockFromTxns",
 "C06-d": "after oversize + hard-defect combinations were added (soft/hard classification at pool admission)",
 "C07-d": "after start-ups on an address index that lags a few blocks behind the head were added",
 "C18-d": "after wallets loaded from legacy / sparse serialisations (repo fixtures, meta fields dropped) went through the lock-reload-unlock and service encrypt/decrypt cycles, incl. the real default cipher",
 "C22-b": "after the real readLoop was run on scripted connections (new verif hook gnet.VerifReadLoop)",
 "C05-e": "after histories with three distinct rule sets (unconfirmed / create-block / user burn factor, size, decimals) were added",
 "C06-e": "after histories with three distinct rule sets (unconfirmed / create-block / user) were added",
 "C07-e": "after the verbose block queries (by seqs, range, last-n against by-seq) joined the whole-state digest",
 "C33-e": "after getblocks requests were issued systematically for last in {head-2 .. head+1}",
 "C10-e": "after r re-encodings (r+n, n, n+1, p-1, p with every recovery id) on every valid signature, the tiny-r family and a crafted-signature genesis path were added (C10 and C14)",
 "C22-e": "after the whole receive path (handleConnection with the real daemon Handle on a Daemon reduced to its event queue; new verif hooks) was run on bursts and the queued messages looked at after the burst",
 "C20-e": "first reported without a failing input (translator rejected the source, traced syscalls differ); concrete replay after the retry-after-crash scenarios used real torn prefixes and compared the completed retry with the clean save",
 "C14-e": "after the canonical (r, s) of every crafted tiny-r triple (nonce point x in [n, p)) went through secp256k1go Signature.Verify (rawverify) with all four readings' keys",
 "C17-e": "after the deterministic reference chain came from the cipher library over the bytes of the seed string and seed strings became free-form (hex-looking, digits, 64-hex legacy, UTF-8)",
 "C18-e": "after plaintexts of 64+ blocks (and 18-64-address wallets under sha256-xor) were followed by small operations in the same process and ciphertexts were checked by the Lean reference",
 "C19-e": "after wallets could be aged (backdated through Service.Update / UpdateSecrets) before recover, so that creation and recovery fall into different seconds",
 "C27-e": "first reported without a failing input; concrete replay after tokens that expire between the construction of a long-lived mux and the request were added",
 "C28-e": "after pools holding two or three conflicting spends of one output were queried through every pool-dependent view",
 "C04-f": "after tie histories with 33-47 transactions per block and copies of the publisher's block with a trailing transaction replaced were added (the Lean Merkle recomputation then covers large bodies)",
 "C07-f": "after the block queries' result SETS (by seqs, ranges incl. beyond the head, last-n for n around the head seq) were compared, not only the blocks returned",
 "C11-f": "after distribution parameters were also derived as an edited copy of the validated built-in distribution with other lock boundaries",
 "C13-f": "after encrypted wallets extended while locked (bip44 and deterministic) signed through GuardView; C17 as first built",
 "C22-f": "after 8-60 KB messages between small ones were run through the real readLoop / receive path under all read sizes",
 "C24-f": "after the transitions were also driven through the daemon's event handlers (handleEvent / connectionIntroduced on a reduced Daemon; new verif hook)",
 "C26-f": "after eviction pressure on a full list with LastSeen ties, trusted peers and differing retry counters was added",
 "C33-f": "C23 as first built; C33 after the serving side was run under outgoing-message limits around the reply size",
 "C29-f": "after every paged query was also run through the verbose path (Visor.GetTransactionsWithInputs) with pages N+1, N+2, 2^32, 2^63, MaxUint64 and MaxUint64/size",
 "C32-f": "first reported without a failing input (regenerated fact 'every blocking step of Strand watches quit' false); concrete replay after workloads with calls queued on the strand for more than a second at Shutdown",
 "C20-f": "as first built (with the retry-after-crash scenarios of round 5)",
 "C17-f": "after collection batches mixed held and new keys (held first, middle, last, repeats) followed by the entry-consistency dump, reload and relock",
 "C19-f": "after the service under test itself could be restarted on its populated directory (restart op) and restarts were followed by duplicate-seed creates",
 "C02-g": "after a once-per-history sweep with a single transaction naming one of its inputs twice in a NON-adjacent position and paying the duplicated coins out",
 "C07-g": "after injected execution faults (HistoryDB.ParseBlock fails after Unspents.ProcessBlock ran, the database transaction rolls back) preceded real executions of the same block (AddressCount is part of the digest)",
 "C22-g": "after streams legal under a limit at the length of one of their messages were run through the real readLoop with reads ending 1-4 bytes before the end of each frame",
 "C19-g": "after temporary-first orders (temp then twin, unload, third and fourth create) were added for every seeded wallet type",
 "C27-g": "after 17 proxy / override header variants (X-Forwarded-Host, Forwarded, X-Real-IP, X-Forwarded-Proto, X-HTTP-Method-Override, ...) that must not change any verdict were added to the one-deviation sweeps",
 "C28-g": "after one of two conflicting pending spends was confirmed in a block (new op: the publisher executes a block of named pool transactions, no refresh) before the pool-dependent views were queried",
 "C17-h": "after the C17 harness also built Bitcoin-coin bip44 / xpub wallets (coin type chosen by the low bit of the case seed) and the verify op compared every entry's address with the address the wallet's coin decoder gives its public key",
 "C04-h": "after the `strip-txs` mutation (a valid next block with its whole transaction list removed, body hash stale or recomputed, sent to the arbitrating publisher half of the time) was added to the block mutations",
 "C07-b": "after the balance view (GetBalanceOfAddresses) joined the whole-state digest and the model",
}
rows = []
for d in sorted(glob.glob('/verif/seeded/*')):
    sid = os.path.basename(d)
    m = json.load(open(d + '/meta.json'))
    checks = {}
    for k, v in m.get('confirmation', {}).get('checks', {}).items():
        checks[k] = v['exit']
    for k, v in m.get('recheck', {}).items():
        c = k.split()[0]
        checks[c] = max(checks.get(c, 0), v['exit']) if v['exit'] == 1 else checks.get(c, v['exit'])
    caught = [c for c, e in sorted(checks.items()) if e == 1]
    files = ', '.join(os.path.basename(f) for f in m.get('files_changed', []))
    summ = re.sub(r'\s+', ' ', m.get('summary', '')).strip()
    summ = summ[:230] + ('…' if len(summ) > 230 else '')
    note = STRENGTHENED.get(sid, 'as first built')
    rows.append("| %s | %s | %s | %s | %s |" % (sid, files, summ.replace('|', '/'), ', '.join(caught) or '—', note))
table = "| seed | file(s) | change | reported by | check state when first caught |\n|---|---|---|---|---|\n" + "\n".join(rows)
p = '/verif/DESIGN.md'
s = open(p).read()
a, b = '<!-- SEED-TABLE-BEGIN -->', '<!-- SEED-TABLE-END -->'
if a in s:
    s = s[:s.index(a) + len(a)] + "\n" + table + "\n" + s[s.index(b):]
    open(p, 'w').write(s)
    print("table updated:", len(rows), "rows")
else:
    print(table)
