#!/usr/bin/env python3
"""seed_recheck.py <id> <check> [<check>...]
Re-runs the named checks (several VERIF_SEED values) against a kept seeded change (/verif/seeded/<id>/patch.diff
applied to a fresh scratch worktree of /repo HEAD) and records the result in meta.json under "recheck"."""
import json, os, subprocess, sys
sid, checks = sys.argv[1], sys.argv[2:]
dst = "/verif/seeded/" + sid
wt = "/tmp/wt-recheck-" + sid
subprocess.run(["git", "-C", "/repo", "worktree", "remove", "--force", wt], capture_output=True)
subprocess.run(["git", "-C", "/repo", "worktree", "add", "-q", wt, "HEAD"], check=True)
out = {}
try:
    subprocess.run(["git", "apply", dst + "/patch.diff"], cwd=wt, check=True)
    for c in checks:
        for seed in os.environ.get("SEEDS", "1 2").split():
            p = subprocess.run(["./check", c], cwd="/verif", env=dict(os.environ, VERIF_REPO=wt, VERIF_SEED=seed),
                               capture_output=True, text=True)
            lines = [l for l in p.stdout.splitlines() if l.startswith(("VIOLATION", "OK", "CHECK-ERROR"))]
            out["%s seed=%s" % (c, seed)] = {"exit": p.returncode, "lines": lines[:2]}
finally:
    subprocess.run(["git", "-C", "/repo", "worktree", "remove", "--force", wt], capture_output=True)
meta = json.load(open(dst + "/meta.json"))
meta["recheck"] = out
json.dump(meta, open(dst + "/meta.json", "w"), indent=1)
print(json.dumps(out, indent=1))
