#!/bin/bash
# MANIFEST.setup_cmd: build the whole framework from files on disk only (offline).
set -e
cd "$(dirname "$0")"
export GOFLAGS=-mod=mod GOPROXY=off GOSUMDB=off GOTOOLCHAIN=local CGO_ENABLED=0
mkdir -p bin evidence replays
(cd tools/extract && go build -o ../../bin/ ./...)
# regenerate the model parts that are translated from /repo (never committed)
python3 - <<'PY'
import sys; sys.path.insert(0, '.')
import vlib, json
names = json.load(open('tools/extract/translators.json'))
for n, ok, out in vlib.run_translators(names):
    print('translator', n, 'ok' if ok else 'FAILED: ' + out)
PY
cp /repo/go.sum harness/go.sum
(cd harness && go build -tags verif -o ../bin/harness .)
# whole Lean library + every driver; a failing module is reported by the check that needs it
(cd lean && lake build 2>&1 | tail -5; for d in $(grep -o 'name = "drv_[a-z0-9_]*"' lakefile.toml | cut -d'"' -f2); do lake build $d 2>&1 | tail -1; done) || true
echo setup done
