#!/bin/bash
# MANIFEST.setup_cmd: build the whole framework from files on disk only (offline).
set -e
cd "$(dirname "$0")"
export GOFLAGS=-mod=mod GOPROXY=off GOSUMDB=off GOTOOLCHAIN=local CGO_ENABLED=0
mkdir -p bin evidence replays
(cd tools/extract && go build -o ../../bin/ ./...)
# regenerate the model parts that are translated from /repo (never committed)
for t in tools/extract/*/; do n=$(basename $t); [ -f $t/main.go ] && { bin/$n -repo /repo -out lean || echo "translator $n FAILED"; }; done
cp /repo/go.sum harness/go.sum
for d in harness/c[0-9]*/; do n=$(basename $d); (cd harness && go build -tags verif -o ../bin/h_$n ./$n) || echo "harness $n failed to build"; done
# whole Lean library + every driver; a failing module is reported by the check that needs it
(cd lean && lake build 2>&1 | tail -5; for f in Sky/C[0-9]*/Drv*.lean; do d=$(grep -B1 "root = \"$(echo ${f%.lean} | tr / .)\"" lakefile.toml | grep -o 'drv_[a-z0-9_]*'); [ -n "$d" ] && lake build $d 2>&1 | tail -1; done) || true
echo setup done
