def P : Nat := 0xFFFFFFFFFFFFFFFFFFFFFFFFFFFFFFFFFFFFFFFFFFFFFFFFFFFFFFFEFFFFFC2F
def N : Nat := 0xFFFFFFFFFFFFFFFFFFFFFFFFFFFFFFFEBAAEDCE6AF48A03BBFD25E8CD0364141
def Gx : Nat := 0x79BE667EF9DCBBAC55A06295CE870B07029BFCDB2DCE28D959F2815B16F81798
def Gy : Nat := 0x483ADA7726A3C4655DA4FBFC0E1108A8FD17B448A68554199C47D08FFB10D4B8

def powModF : Nat → Nat → Nat → Nat → Nat → Nat
  | 0, _, _, _, r => r
  | fuel+1, b, e, m, r =>
    let r' := if e % 2 == 1 then r * b % m else r
    powModF fuel (b * b % m) (e / 2) m r'

def inv (a : Nat) : Nat := powModF 256 (a % P) (P - 2) P 1

inductive Pt | inf | aff (x y : Nat)
deriving DecidableEq, Repr

def add : Pt → Pt → Pt
  | .inf, q => q
  | p, .inf => p
  | .aff x1 y1, .aff x2 y2 =>
    if x1 == x2 then
      if (y1 + y2) % P == 0 then .inf
      else
        let l := (3 * x1 * x1 % P) * inv (2 * y1 % P) % P
        let x3 := (l * l + 2 * (P - x1)) % P
        let y3 := (l * ((x1 + (P - x3)) % P) + (P - y1)) % P
        .aff x3 y3
    else
      let l := ((y2 + (P - y1)) % P) * inv ((x2 + (P - x1)) % P) % P
      let x3 := (l * l + (P - x1) + (P - x2)) % P
      let y3 := (l * ((x1 + (P - x3)) % P) + (P - y1)) % P
      .aff x3 y3

def smulF : Nat → Nat → Pt → Pt → Pt
  | 0, _, _, acc => acc
  | fuel+1, k, p, acc =>
    let acc' := if k % 2 == 1 then add acc p else acc
    smulF fuel (k / 2) (add p p) acc'

def smul (k : Nat) (p : Pt) : Pt := smulF 256 k p .inf
def G : Pt := .aff Gx Gy

theorem order_G : smul N G = .inf := by decide +kernel
theorem G_on : (Gy * Gy) % P = (Gx * Gx % P * Gx + 7) % P := by decide +kernel
#print axioms order_G
