abbrev Bytes := List UInt8

inductive Ty where
  | u8 | u32
  | bytesN (n : Nat)
  | slice (maxlen : Nat) (t : Ty)      -- maxlen 0 = none
  | unit
  | pair (a b : Ty)
deriving DecidableEq, Repr

abbrev Val : Ty → Type
  | .u8 => UInt8
  | .u32 => Nat
  | .bytesN _ => Bytes
  | .slice _ t => List (Val t)
  | .unit => Unit
  | .pair a b => Val a × Val b

inductive Err | underflow | maxlen | remaining deriving DecidableEq, Repr

def leBytes : Nat → Nat → Bytes
  | 0, _ => []
  | k+1, x => (UInt8.ofNat (x % 256)) :: leBytes k (x / 256)

def leVal : Bytes → Nat
  | [] => 0
  | b :: bs => b.toNat + 256 * leVal bs

@[simp] theorem leBytes_length (k x : Nat) : (leBytes k x).length = k := by
  induction k generalizing x with
  | zero => rfl
  | succ k ih => simp [leBytes, ih]

theorem leVal_leBytes (k x : Nat) (h : x < 256^k) : leVal (leBytes k x) = x := by
  induction k generalizing x with
  | zero => simp [leBytes, leVal]; omega
  | succ k ih =>
    simp only [leBytes, leVal]
    have h2 : x / 256 < 256^k := by
      rw [Nat.pow_succ] at h
      exact Nat.div_lt_of_lt_mul (by rw [Nat.mul_comm]; exact h)
    rw [ih _ h2]
    have : (UInt8.ofNat (x % 256)).toNat = x % 256 := by
      simp [UInt8.toNat_ofNat']
    rw [this]; omega

def enc : (t : Ty) → Val t → Bytes
  | .u8, v => [v]
  | .u32, v => leBytes 4 v
  | .bytesN _, v => v
  | .slice _ t, v => leBytes 4 v.length ++ (v.map (enc t)).flatten
  | .unit, _ => []
  | .pair a b, (x, y) => enc a x ++ enc b y

def decN {α} (d : Bytes → Except Err (α × Bytes)) : Nat → Bytes → Except Err (List α × Bytes)
  | 0, bs => .ok ([], bs)
  | n+1, bs =>
    match d bs with
    | .error e => .error e
    | .ok (x, r) =>
      match decN d n r with
      | .error e => .error e
      | .ok (xs, r') => .ok (x :: xs, r')

def dec : (t : Ty) → Bytes → Except Err (Val t × Bytes)
  | .u8, bs => match bs with
    | b :: r => .ok (b, r)
    | [] => .error .underflow
  | .u32, bs => if bs.length < 4 then .error .underflow else
      .ok (leVal (bs.take 4), bs.drop 4)
  | .bytesN n, bs => if bs.length < n then .error .underflow else
      .ok (bs.take n, bs.drop n)
  | .slice m t, bs =>
      if bs.length < 4 then .error .underflow else
      let len := leVal (bs.take 4)
      let r := bs.drop 4
      if len > r.length then .error .underflow
      else if m > 0 ∧ len > m then .error .maxlen
      else decN (dec t) len r
  | .unit, bs => .ok ((), bs)
  | .pair a b, bs =>
      match dec a bs with
      | .error e => .error e
      | .ok (x, r) =>
        match dec b r with
        | .error e => .error e
        | .ok (y, r') => .ok ((x, y), r')

/-- every element encodes to at least one byte (needed for the `len > remaining` guard) -/
def MinOne : Ty → Prop
  | .u8 | .u32 => True
  | .bytesN n => 0 < n
  | .slice _ _ => True
  | .unit => False
  | .pair a b => MinOne a ∨ MinOne b

/-- well-formed value: slice lengths respect maxlen and fit u32 -/
def WF : (t : Ty) → Val t → Prop
  | .u8, _ | .unit, _ => True
  | .u32, v => v < 2^32
  | .bytesN n, v => v.length = n
  | .slice m t, v => v.length < 2^32 ∧ (m = 0 ∨ v.length ≤ m) ∧ ∀ x ∈ v, WF t x
  | .pair a b, (x, y) => WF a x ∧ WF b y

/-- schema well-formedness: slice element types are at least one byte -/
def TyOK : Ty → Prop
  | .slice _ t => MinOne t ∧ TyOK t
  | .pair a b => TyOK a ∧ TyOK b
  | _ => True

theorem enc_minOne (t : Ty) (h : MinOne t) (v : Val t) (hw : WF t v) : 0 < (enc t v).length := by
  induction t with
  | u8 => simp [enc]
  | u32 => simp [enc]
  | bytesN n => simp only [enc, MinOne, WF] at *; omega
  | slice m t ih => simp [enc]; omega
  | unit => simp [MinOne] at h
  | pair a b iha ihb =>
    obtain ⟨x, y⟩ := v
    obtain ⟨hwa, hwb⟩ := hw
    simp only [enc, List.length_append]
    rcases h with h | h
    · have := iha h x hwa; omega
    · have := ihb h y hwb; omega

theorem decN_enc {t : Ty} (ih : ∀ (v : Val t), WF t v → ∀ rest, dec t (enc t v ++ rest) = .ok (v, rest))
    (vs : List (Val t)) (hw : ∀ x ∈ vs, WF t x) (rest : Bytes) :
    decN (dec t) vs.length ((vs.map (enc t)).flatten ++ rest) = .ok (vs, rest) := by
  induction vs with
  | nil => simp [decN]
  | cons v vs ihl =>
    simp only [List.length_cons, List.map_cons, List.flatten_cons, List.append_assoc, decN]
    rw [ih v (hw v (by simp))]
    simp only
    rw [ihl (fun x hx => hw x (by simp [hx]))]

theorem flatten_len_ge {t : Ty} (hm : MinOne t) (vs : List (Val t)) (hw : ∀ x ∈ vs, WF t x) :
    vs.length ≤ ((vs.map (enc t)).flatten).length := by
  induction vs with
  | nil => simp
  | cons v vs ih =>
    simp only [List.length_cons, List.map_cons, List.flatten_cons, List.length_append]
    have := enc_minOne t hm v (hw v (by simp))
    have := ih (fun x hx => hw x (by simp [hx]))
    omega

theorem take_app {α} (a b : List α) (n : Nat) (h : a.length = n) : (a ++ b).take n = a := by
  subst h; simp
theorem drop_app {α} (a b : List α) (n : Nat) (h : a.length = n) : (a ++ b).drop n = b := by
  subst h; simp

theorem dec_u32_app (x : Nat) (hx : x < 2^32) (rest : Bytes) :
    dec .u32 (leBytes 4 x ++ rest) = .ok (x, rest) := by
  unfold dec
  have hl : ¬ (leBytes 4 x ++ rest).length < 4 := by simp
  simp only [hl, if_false]
  rw [take_app _ _ 4 (by simp), drop_app _ _ 4 (by simp), leVal_leBytes 4 x (by omega)]

theorem dec_bytesN_app (n : Nat) (v : Bytes) (hv : v.length = n) (rest : Bytes) :
    dec (.bytesN n) (v ++ rest) = .ok (v, rest) := by
  unfold dec
  have hl : ¬ (v ++ rest).length < n := by simp [hv]
  simp only [hl, if_false]
  rw [take_app _ _ n hv, drop_app _ _ n hv]

theorem dec_slice_app (m : Nat) (t : Ty) (len : Nat) (hlen : len < 2^32) (body rest : Bytes)
    (h1 : len ≤ (body ++ rest).length) (h2 : m = 0 ∨ len ≤ m) :
    dec (.slice m t) (leBytes 4 len ++ (body ++ rest)) = decN (dec t) len (body ++ rest) := by
  rw [dec]
  have hl : ¬ (leBytes 4 len ++ (body ++ rest)).length < 4 := by simp
  simp only [hl, if_false]
  rw [take_app _ _ 4 (by simp), drop_app _ _ 4 (by simp), leVal_leBytes 4 len (by omega)]
  have h1' : ¬ (len > (body ++ rest).length) := by omega
  have h2' : ¬ (m > 0 ∧ len > m) := by rcases h2 with h | h <;> omega
  simp only [h1', h2', if_false]

theorem dec_enc (t : Ty) (ht : TyOK t) (v : Val t) (hw : WF t v) (rest : Bytes) :
    dec t (enc t v ++ rest) = .ok (v, rest) := by
  induction t generalizing rest with
  | u8 => simp [enc, dec]
  | u32 => exact dec_u32_app v hw rest
  | bytesN n => exact dec_bytesN_app n v hw rest
  | slice m t ih =>
    obtain ⟨hmin, htt⟩ := ht
    obtain ⟨hlen, hmax, hall⟩ := hw
    have hge := flatten_len_ge hmin v hall
    show dec (.slice m t) ((leBytes 4 (List.length v) ++ (List.map (enc t) v).flatten) ++ rest) = _
    rw [List.append_assoc, dec_slice_app m t _ hlen _ _ (by simp only [List.length_append]; omega) hmax]
    exact decN_enc (fun x hx r => ih htt x hx r) v hall rest
  | unit => simp [enc, dec]
  | pair a b iha ihb =>
    obtain ⟨x, y⟩ := v
    obtain ⟨hta, htb⟩ := ht
    obtain ⟨hwa, hwb⟩ := hw
    show dec (.pair a b) ((enc a x ++ enc b y) ++ rest) = _
    rw [List.append_assoc, dec, iha hta x hwa]
    simp only
    rw [ihb htb y hwb]

#print axioms dec_enc

theorem leVal_lt (bs : Bytes) : leVal bs < 256 ^ bs.length := by
  induction bs with
  | nil => simp [leVal]
  | cons b bs ih =>
    simp only [leVal, List.length_cons, Nat.pow_succ]
    have := b.toNat_lt
    omega

theorem leBytes_leVal (bs : Bytes) : leBytes bs.length (leVal bs) = bs := by
  induction bs with
  | nil => simp [leBytes]
  | cons b bs ih =>
    simp only [List.length_cons, leBytes, leVal]
    have hb := b.toNat_lt
    have h1 : (b.toNat + 256 * leVal bs) % 256 = b.toNat := by omega
    have h2 : (b.toNat + 256 * leVal bs) / 256 = leVal bs := by omega
    rw [h1, h2, ih]
    simp

theorem decN_canon {t : Ty}
    (ih : ∀ bs v rest, dec t bs = .ok (v, rest) → enc t v ++ rest = bs)
    (n : Nat) (bs : Bytes) (vs : List (Val t)) (rest : Bytes)
    (h : decN (dec t) n bs = .ok (vs, rest)) :
    (vs.map (enc t)).flatten ++ rest = bs ∧ vs.length = n := by
  induction n generalizing bs vs rest with
  | zero => simp [decN] at h; obtain ⟨h1, h2⟩ := h; subst h1 h2; simp
  | succ n ihn =>
    simp only [decN] at h
    split at h
    · simp at h
    · rename_i x r hx
      split at h
      · simp at h
      · rename_i xs r' hxs
        simp at h
        obtain ⟨h1, h2⟩ := h
        subst h1 h2
        have e1 := ih _ _ _ hx
        obtain ⟨e2, e3⟩ := ihn _ _ _ hxs
        simp only [List.map_cons, List.flatten_cons, List.append_assoc, List.length_cons]
        rw [e2, e1]
        exact ⟨rfl, by omega⟩

theorem dec_canon (t : Ty) (bs : Bytes) (v : Val t) (rest : Bytes)
    (h : dec t bs = .ok (v, rest)) : enc t v ++ rest = bs := by
  induction t generalizing bs rest with
  | u8 =>
    cases bs with
    | nil => simp [dec] at h
    | cons b r => simp [dec] at h; obtain ⟨h1, h2⟩ := h; subst h1 h2; simp [enc]
  | u32 =>
    unfold dec at h
    split at h
    · simp at h
    · rename_i hl
      simp at h
      obtain ⟨h1, h2⟩ := h
      subst h1 h2
      simp only [enc]
      have hl4 : (bs.take 4).length = 4 := by simp [List.length_take]; omega
      have := leBytes_leVal (bs.take 4)
      rw [hl4] at this
      rw [this, List.take_append_drop]
  | bytesN n =>
    unfold dec at h
    split at h
    · simp at h
    · simp at h
      obtain ⟨h1, h2⟩ := h
      subst h1 h2
      simp [enc]
  | slice m t ih =>
    rw [dec] at h
    split at h
    · simp at h
    · rename_i hl
      simp only at h
      split at h
      · simp at h
      · split at h
        · simp at h
        · obtain ⟨e1, e2⟩ := decN_canon (fun bs v rest hh => ih bs v rest hh) _ _ _ _ h
          simp only [enc, List.append_assoc]
          rw [e1, e2]
          have hl4 : (bs.take 4).length = 4 := by simp [List.length_take]; omega
          have := leBytes_leVal (bs.take 4)
          rw [hl4] at this
          rw [this, List.take_append_drop]
  | unit => simp [dec] at h; subst h; simp [enc]
  | pair a b iha ihb =>
    rw [dec] at h
    split at h
    · simp at h
    · rename_i x r hx
      split at h
      · simp at h
      · rename_i y r' hy
        simp at h
        obtain ⟨h1, h2⟩ := h
        subst h1 h2
        simp only [enc, List.append_assoc]
        rw [ihb _ _ _ hy, iha _ _ _ hx]

#print axioms dec_canon
